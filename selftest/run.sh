#!/bin/bash
# Must-fail corpus: apply each patch to /repo, run the property's quick check,
# expect a VIOLATION (exit 1); undo the patch. Also runs the clean tree first.
# usage: selftest/run.sh [name-filter]
cd /verif
export GOVC_OBL_TIMEOUT=${GOVC_OBL_TIMEOUT:-8}
filter=${1:-}
fail=0
clean() { git -C /repo checkout -- . ; }
# evidence and replays written while a patch is applied describe the patched tree: put the committed ones back
restore_ev() { git -C /verif checkout -- evidence 2>/dev/null; }
trap "clean; restore_ev" EXIT
if [ -n "$(git -C /repo status --porcelain)" ]; then echo "/repo is dirty"; exit 2; fi
run_one() { # name patch prop [reason of a recorded miss]
  name=$1; patch=$2; prop=$3; miss=$4
  if ! git -C /repo apply --check "$patch" 2>/dev/null; then echo "SKIP $name: patch does not apply"; return; fi
  git -C /repo apply "$patch"
  out=$(./check "$prop" quick 2>&1); rc=$?
  clean
  if [ $rc -eq 1 ] && echo "$out" | grep -q "^VIOLATION property=$prop"; then
    echo "CAUGHT $name ($prop): $(echo "$out" | grep -c '^VIOLATION') violation line(s); $(echo "$out" | grep '^VIOLATION' | grep -vc no-failing-input-found) with failing input"
  elif [ -n "$miss" ] && [ $rc -eq 0 ]; then
    echo "RECORDED-MISS $name ($prop): $miss"
  else
    echo "MISSED $name ($prop): rc=$rc"; echo "$out" | tail -3 | sed 's/^/    /'; fail=1
  fi
}
for p in selftest/patches/*.patch; do
  [ -e "$p" ] || continue
  name=$(basename "$p" .patch)
  [ -n "$filter" ] && [[ "$name" != *$filter* ]] && continue
  prop=${name%%_*}
  run_one "$name" "$PWD/$p" "$prop"
done
for d in seeded/*/; do
  [ -e "$d/patch.diff" ] || continue
  name=seeded-$(basename "$d")
  [ -n "$filter" ] && [[ "$name" != *$filter* ]] && continue
  prop=$(python3 -c "import json,sys; print(json.load(open('$d/meta.json'))['property'])")
  miss=$(python3 -c "import json,sys; print(json.load(open('$d/meta.json')).get('recorded_miss',''))")
  run_one "$name" "$PWD/$d/patch.diff" "$prop" "$miss"
done
exit $fail
