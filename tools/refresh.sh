#!/bin/bash
# Re-run every claimed check on the (clean) tree so that the committed
# evidence files describe the unchanged tree; regenerate MANIFEST.json.
cd /verif
if [ -n "$(git -C /repo status --porcelain)" ]; then echo "/repo is dirty"; exit 2; fi
rc=0
for id in $(python3 -c "import json; print(' '.join(sorted(json.load(open('tools/claims.json')))))"); do
  out=$(./check $id quick 2>&1); r=$?
  echo "$id rc=$r $(echo "$out" | tail -1)"
  [ $r -ne 0 ] && { echo "$out" | grep -E "VIOLATION|TOOL-ERROR|UNDECIDED" | head -5; rc=1; }
done
python3 tools/mkmanifest.py
exit $rc
