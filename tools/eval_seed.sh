#!/bin/bash
# tools/eval_seed.sh <outdir> <n> <prop> <pkgdir-of-demo> <seed-name> "<needs>"
# Confirms a sub-agent's seeded change (applies, suite passes with it, demo
# fails with it and passes without), stores it under /verif/seeded/<name>/,
# and runs the property's check against it.
out=$1; n=$2; prop=$3; pkg=$4; name=$5; needs=$6
export PATH=/opt/veriftools/go1.26.8/bin:$PATH GOTOOLCHAIN=local GOFLAGS=-mod=mod GOPROXY=off GOSUMDB=off
cd /repo || exit 2
[ -n "$(git status --porcelain)" ] && { echo "/repo dirty"; exit 2; }
trap 'git -C /repo checkout -- .; rm -f /tmp/ov-$$.json' EXIT
patch=$out/change$n.diff; demo=$out/demo${n}_test.go
git apply --check $patch || { echo "PATCH DOES NOT APPLY"; exit 1; }
echo "{\"Replace\":{\"/repo/$pkg/zz_seed_demo_test.go\":\"$demo\"}}" > /tmp/ov-$$.json
clean_demo=$(go test -overlay /tmp/ov-$$.json -vet=off -count=1 -run 'Demo|Seed' ./$pkg/ 2>&1 | tail -1)
git apply $patch
suite=$(go test -vet=off -count=1 ./$pkg/ 2>&1 | tail -1)
mut_demo=$(go test -overlay /tmp/ov-$$.json -vet=off -count=1 -run 'Demo|Seed' ./$pkg/ 2>&1 | tail -1)
chk=$(cd /verif && ./check $prop quick 2>&1); rc=$?
git checkout -- .
(cd /verif && git checkout -- evidence 2>/dev/null)
echo "demo on clean tree : $clean_demo"
echo "suite with change  : $suite"
echo "demo with change   : $mut_demo"
echo "check rc=$rc: $(echo "$chk" | grep -c '^VIOLATION') violation(s), $(echo "$chk" | grep '^VIOLATION' | grep -vc no-failing-input-found) with failing input"
echo "$chk" | grep -E "^VIOLATION|^UNDECIDED|^TOOL" | cut -c1-220 | head -4
d=/verif/seeded/$name; mkdir -p $d
cp $patch $d/patch.diff; cp $demo $d/demo_test.go
python3 - "$d" "$prop" "$needs" "$pkg" "$clean_demo" "$suite" "$mut_demo" "$rc" <<'PY'
import json,sys
d,prop,needs,pkg,cd,su,md,rc=sys.argv[1:9]
json.dump({"property":prop,"needs_to_manifest":needs,"package_dir":pkg,
 "confirmed":{"demo_on_unchanged_tree":cd,"package_suite_with_change":su,"demo_with_change":md},
 "what_was_run":["git -C /repo apply patch.diff","go test -overlay <demo as %s/zz_seed_demo_test.go> -vet=off -count=1 -run Demo ./%s/ (with and without the change)"%(pkg,pkg),"go test -vet=off -count=1 ./%s/ (with the change)"%pkg,"./check %s quick (with the change)"%prop,"git -C /repo checkout -- ."],
 "check_exit_code_with_change":int(rc)},open(d+"/meta.json","w"),indent=1)
PY
