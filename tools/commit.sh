#!/bin/bash
# tools/commit.sh "message": re-run every claimed check on the clean tree
# (so that the committed evidence describes the unchanged tree), refuse to
# commit if any check alarms, then commit /verif.
cd /verif
tools/refresh.sh > /tmp/refresh.log 2>&1; rc=$?
grep -v "rc=0" /tmp/refresh.log
if [ $rc -ne 0 ]; then echo "NOT COMMITTED: a check alarms on the clean tree"; exit 1; fi
git add -A && git commit -qm "$1" && echo "committed: $1"
