#!/usr/bin/env python3
"""Regenerate MANIFEST.json from tools/claims.json (claimed checks) and
tools/na.json (reasons for unclaimed properties)."""
import json, subprocess, os
root = os.path.dirname(os.path.dirname(os.path.abspath(__file__)))
claims = json.load(open(os.path.join(root, "tools", "claims.json")))
na = json.load(open(os.path.join(root, "tools", "na.json")))
props = [json.loads(l) for l in open(os.path.join(root, "properties.jsonl"))]
ids = [p["id"] for p in props]
hooks_commits = []
try:
    out = subprocess.run(["git", "-C", "/repo", "log", "--format=%H %s"], capture_output=True, text=True).stdout
    for ln in out.splitlines():
        h, s = ln.split(" ", 1)
        if s.startswith("verif:"):
            hooks_commits.append(h)
except Exception:
    pass
checks = []
for pid in ids:
    if pid not in claims:
        continue
    c = claims[pid]
    checks.append({
        "property_id": pid,
        "quick_cmd": "./check %s quick" % pid,
        "thorough_cmd": "./check %s thorough" % pid,
        "evidence_file": "/verif/evidence/%s.json" % pid,
        "replay_cmd_template": "./check --replay {path}",
        "engine": "govc",
        "level_claimed": {"category": "proof", "text": c["text"], "design_ref": c.get("design_ref", "DESIGN.md section 7, " + pid)},
        "level_note": c["note"],
        "technique": c.get("technique", "contract-based deductive verification: weakest-precondition style VCs generated from go/ssa of the real functions, contracts in /repo/<pkg>/verif_contracts.go, discharged by z3/cvc5"),
    })
nas = []
for pid in ids:
    if pid in claims:
        continue
    nas.append({"property_id": pid, "reason": na.get(pid, "reachable in principle (DESIGN section 7); contracts not built")})
m = {
    "version": 1,
    "setup_cmd": "cd /verif/govc && PATH=/opt/veriftools/go1.26.8/bin:$PATH GOTOOLCHAIN=local GOFLAGS=-mod=vendor GOPROXY=off GOSUMDB=off GOCACHE=/verif/.cache/go-build go build -o /verif/bin/govc .",
    "hooks": {
        "guard": "verif",
        "enable": "go build/test -tags verif (govc loads /repo with -tags=verif; the tag only adds comment-only files verif_contracts.go)",
        "baseline_off_cmd": "cd /repo && for m in . ./x509roots/fallback; do (cd $m && go test -mod=mod -json -vet=off -count=1 -timeout 25m ./...); done",
        "source_commits": hooks_commits,
        "add_only": True,
    },
    "engines": [{
        "name": "govc",
        "path": "/verif/govc",
        "serves_properties": [c["property_id"] for c in checks],
        "kind_free_text": "verification-condition generator for Go written for this task: go/packages+go/ssa symbolic execution per function, modular (callee contracts at call sites), loop invariants or complete unrolling of constant loops, implicit no-panic obligations, SMT-LIB output raced on z3 5.1, cvc5 1.0.3, z3 4.8",
    }],
    "checks": checks,
    "notes": "Contracts are //@ comment blocks in /repo/<pkg>/verif_contracts.go (build tag verif, comments only) and assumed contracts for external functions in /verif/contracts. See DESIGN.md.",
    "not_applicable": nas,
}
json.dump(m, open(os.path.join(root, "MANIFEST.json"), "w"), indent=1)
print("MANIFEST: %d checks, %d not_applicable" % (len(checks), len(nas)))
