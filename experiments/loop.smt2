(set-option :produce-models true)
(set-logic ALL)
(define-sort Idx () (_ BitVec 64))
(define-sort Bytes () (Array Idx (_ BitVec 8)))
(declare-const M0 (Array Int Bytes))   ; memory at loop entry (ghost old)
(declare-const M (Array Int Bytes))    ; memory at iteration i
(declare-const dref Int) (declare-const doff Idx)
(declare-const sref Int) (declare-const soff Idx)
(declare-const kref Int) (declare-const koff Idx)
(declare-const n Idx) (declare-const i Idx)
; well-formedness: offsets+len <= 2^48
(assert (bvule n (_ bv281474976710656 64)))
(assert (bvule doff (_ bv281474976710656 64)))
(assert (bvule soff (_ bv281474976710656 64)))
(assert (bvule koff (_ bv281474976710656 64)))
; keystream buffer distinct object from dst/src
(assert (distinct kref dref)) (assert (distinct kref sref))
; dst/src exact overlap or disjoint
(assert (or (and (= dref sref) (= doff soff)) (distinct dref sref)))
; invariant at i
(assert (bvule i n))
(assert (forall ((k Idx)) (=> (bvult k i) (= (select (select M dref) (bvadd doff k)) (bvxor (select (select M0 sref) (bvadd soff k)) (select (select M0 kref) (bvadd koff k)))))))
; frame: src beyond i unchanged, keystream unchanged
(assert (forall ((k Idx)) (=> (and (bvule i k) (bvult k n)) (= (select (select M sref) (bvadd soff k)) (select (select M0 sref) (bvadd soff k))))))
(assert (= (select M kref) (select M0 kref)))
(assert (bvult i n))
; body
(define-fun v () (_ BitVec 8) (bvxor (select (select M sref) (bvadd soff i)) (select (select M kref) (bvadd koff i))))
(define-fun M1 () (Array Int Bytes) (store M dref (store (select M dref) (bvadd doff i) v)))
(define-fun i1 () Idx (bvadd i #x0000000000000001))
; negated invariant at i+1
(assert (not (and
  (bvule i1 n)
  (forall ((k Idx)) (=> (bvult k i1) (= (select (select M1 dref) (bvadd doff k)) (bvxor (select (select M0 sref) (bvadd soff k)) (select (select M0 kref) (bvadd koff k))))))
  (forall ((k Idx)) (=> (and (bvule i1 k) (bvult k n)) (= (select (select M1 sref) (bvadd soff k)) (select (select M0 sref) (bvadd soff k)))))
  (= (select M1 kref) (select M0 kref)))))
(check-sat)
