(set-option :produce-models true)
(set-logic ALL)
(define-sort Idx () Int)
(define-sort Bytes () (Array Idx (_ BitVec 8)))
(declare-const M0 (Array Int Bytes))   ; memory at loop entry (ghost old)
(declare-const M (Array Int Bytes))    ; memory at iteration i
(declare-const dref Int) (declare-const doff Idx)
(declare-const sref Int) (declare-const soff Idx)
(declare-const kref Int) (declare-const koff Idx)
(declare-const n Idx) (declare-const i Idx)
; well-formedness: offsets+len <= 2^48
(assert (and (<= 0 n) (<= n 281474976710656)))
(assert (and (<= 0 doff) (<= doff 281474976710656)))
(assert (and (<= 0 soff) (<= soff 281474976710656)))
(assert (and (<= 0 koff) (<= koff 281474976710656)))
; keystream buffer distinct object from dst/src
(assert (distinct kref dref)) (assert (distinct kref sref))
; dst/src exact overlap or disjoint
(assert (or (and (= dref sref) (= doff soff)) (distinct dref sref)))
; invariant at i
(assert (and (<= 0 i) (<= i n)))
(assert (forall ((k Idx)) (=> (and (<= 0 k) (< k i)) (= (select (select M dref) (+ doff k)) (bvxor (select (select M0 sref) (+ soff k)) (select (select M0 kref) (+ koff k)))))))
; frame: src beyond i unchanged, keystream unchanged
(assert (forall ((k Idx)) (=> (and (<= i k) (< k n)) (= (select (select M sref) (+ soff k)) (select (select M0 sref) (+ soff k))))))
(assert (= (select M kref) (select M0 kref)))
(assert (< i n))
; body
(define-fun v () (_ BitVec 8) (bvxor (select (select M sref) (+ soff i)) (select (select M kref) (+ koff i))))
(define-fun M1 () (Array Int Bytes) (store M dref (store (select M dref) (+ doff i) v)))
(define-fun i1 () Idx (+ i 1))
; negated invariant at i+1
(assert (not (and
  (<= i1 n)
  (forall ((k Idx)) (=> (and (<= 0 k) (< k i1)) (= (select (select M1 dref) (+ doff k)) (bvxor (select (select M0 sref) (+ soff k)) (select (select M0 kref) (+ koff k))))))
  (forall ((k Idx)) (=> (and (<= i1 k) (< k n)) (= (select (select M1 sref) (+ soff k)) (select (select M0 sref) (+ soff k)))))
  (= (select M1 kref) (select M0 kref)))))
(check-sat)
