(set-option :produce-models true)
(set-logic ALL)
; ints mode: s = bytes Int in [0,256), n = len(s)
(declare-const s (Array Int Int)) (declare-const n Int)
(assert (and (<= 0 n) (<= n 281474976710656)))
(assert (forall ((i Int)) (and (<= 0 (select s i)) (< (select s i) 256))))
; ---- spec: der_header(s,n) -> ok, hdr, clen   (X.690 DER, low tag, <=4 length octets)
(define-fun lenlen () Int (mod (select s 1) 128))
(define-fun be ((k Int)) Int   ; big-endian value of s[2..2+k)
  (ite (= k 1) (select s 2)
  (ite (= k 2) (+ (* 256 (select s 2)) (select s 3))
  (ite (= k 3) (+ (* 65536 (select s 2)) (* 256 (select s 3)) (select s 4))
       (+ (* 16777216 (select s 2)) (* 65536 (select s 3)) (* 256 (select s 4)) (select s 5))))))
(define-fun spec_ok () Bool
  (and (>= n 2) (not (= (mod (select s 0) 32) 31))
       (ite (< (select s 1) 128)
            (>= n (+ 2 (select s 1)))
            (and (>= lenlen 1) (<= lenlen 4) (>= n (+ 2 lenlen))
                 (not (= (select s 2) 0)) (>= (be lenlen) 128)
                 (>= n (+ 2 lenlen (be lenlen))) (< (+ 2 lenlen (be lenlen)) 4294967296)))))
; ---- code (readASN1) in ints mode, as govc would emit it
(define-fun tag () Int (select s 0)) (define-fun lenByte () Int (select s 1))
(define-fun c_lenLen () Int (mod lenByte 128))                 ; lenByte & 0x7f
(define-fun c_len32 () Int (be c_lenLen))                      ; readUnsigned result (mod 2^32 no-op, <2^32)
(define-fun pow ((k Int)) Int (ite (= k 0) 1 (ite (= k 1) 256 (ite (= k 2) 65536 16777216))))
(define-fun c_headerLen () Int (+ 2 c_lenLen))
(define-fun c_sum () Int (mod (+ c_headerLen c_len32) 4294967296))   ; uint32 add
(define-fun c_ok () Bool
  (and (>= n 2) (not (= (mod tag 32) 31))
    (ite (= (mod (div lenByte 128) 2) 0)                      ; lenByte&0x80 == 0
      (>= n (+ lenByte 2))
      (and (not (= c_lenLen 0)) (<= c_lenLen 4) (>= n (+ 2 c_lenLen))
           (>= c_len32 128)
           (not (= (div c_len32 (pow (- c_lenLen 1))) 0))       ; len32>>((lenLen-1)*8) != 0
           (>= c_sum c_len32)                                   ; no uint32 overflow
           (>= c_sum 0) (>= n c_sum)))))
(push)
(assert (not (= spec_ok c_ok)))
(check-sat)
(get-value (n (select s 0) (select s 1) (select s 2) (select s 3) (select s 4) (select s 5)))
(pop)
; mutant: drop the minimality (leading zero octet) check
(define-fun m_ok () Bool
  (and (>= n 2) (not (= (mod tag 32) 31))
    (ite (= (mod (div lenByte 128) 2) 0)
      (>= n (+ lenByte 2))
      (and (not (= c_lenLen 0)) (<= c_lenLen 4) (>= n (+ 2 c_lenLen))
           (>= c_len32 128) (>= c_sum c_len32) (>= n c_sum)))))
(push)
(assert (not (= spec_ok m_ok)))
(check-sat)
(get-value (n (select s 0) (select s 1) (select s 2) (select s 3)))
(pop)
