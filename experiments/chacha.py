from z3 import *
import time, sys
def rotl(x,n): return RotateLeft(x,n)
def QR(a,b,c,d):
    a=a+b; d=d^a; d=rotl(d,16)
    c=c+d; b=b^c; b=rotl(b,12)
    a=a+b; d=d^a; d=rotl(d,8)
    c=c+d; b=b^c; b=rotl(b,7)
    return a,b,c,d
def spec_block(st):
    x=list(st)
    for i in range(10):
        for (a,b,c,d) in [(0,4,8,12),(1,5,9,13),(2,6,10,14),(3,7,11,15),(0,5,10,15),(1,6,11,12),(2,7,8,13),(3,4,9,14)]:
            x[a],x[b],x[c],x[d]=QR(x[a],x[b],x[c],x[d])
    return [x[i]+st[i] for i in range(16)]
k=[BitVec('k%d'%i,32) for i in range(8)]; n=[BitVec('n%d'%i,32) for i in range(3)]; ctr=BitVec('ctr',32)
j=[BitVecVal(v,32) for v in (0x61707865,0x3320646e,0x79622d32,0x6b206574)]
st=j+k+[ctr]+n
# implementation structure
MUT = len(sys.argv)>1
c=st
p1,p5,p9,p13=QR(c[1],c[5],c[9],c[13]); p2,p6,p10,p14=QR(c[2],c[6],c[10],c[14]); p3,p7,p11,p15=QR(c[3],c[7],c[11],c[15])
f0,f4,f8,f12=QR(c[0],c[4],c[8],ctr)
x0,x5,x10,x15=QR(f0,p5,p10,p15); x1,x6,x11,x12=QR(p1,p6,p11,f12); x2,x7,x8,x13=QR(p2,p7,f8,p13); x3,x4,x9,x14=QR(p3,f4,p9,p14)
for i in range(9):
    x0,x4,x8,x12=QR(x0,x4,x8,x12); x1,x5,x9,x13=QR(x1,x5,x9,x13); x2,x6,x10,x14=QR(x2,x6,x10,x14); x3,x7,x11,x15=QR(x3,x7,x11,x15)
    x0,x5,x10,x15=QR(x0,x5,x10,x15); x1,x6,x11,x12=QR(x1,x6,x11,x12)
    if MUT and i==4: x2,x7,x8,x13=QR(x2,x7,x8,x12)
    else: x2,x7,x8,x13=QR(x2,x7,x8,x13)
    x3,x4,x9,x14=QR(x3,x4,x9,x14)
impl=[x0,x1,x2,x3,x4,x5,x6,x7,x8,x9,x10,x11,x12,x13,x14,x15]
impl=[impl[i]+st[i] for i in range(16)]
sp=spec_block(st)
s=Solver(); s.set('timeout',120000)
s.add(Or([impl[i]!=sp[i] for i in range(16)]))
t=time.time(); r=s.check(); print(r,'%.2fs'%(time.time()-t))
if r==sat: print([s.model().eval(v, model_completion=True) for v in k[:2]+[ctr]])
open('chacha_%s.smt2'%('mut' if MUT else 'ok'),'w').write(s.to_smt2())
