from z3 import *
import time, sys
W = 2**64
P = 2**130 - 5
def u64(n): 
    v = Int(n); return v, [v >= 0, v < W]
ass = []
def mk(n):
    v, a = u64(n); ass.extend(a); return v
h0, h1, h2 = mk('h0'), mk('h1'), mk('h2')
r0, r1 = mk('r0'), mk('r1')
m0, m1 = mk('m0'), mk('m1')
ass += [h2 <= 5, r0 <= 0x0FFFFFFC0FFFFFFF, r1 <= 0x0FFFFFFC0FFFFFFC]
cnt=[0]
def add64(x, y, c):
    s = x + y + c
    cnt[0]+=1
    lo = Int('lo%d'%cnt[0]); co = Int('co%d'%cnt[0])
    ass.extend([s == lo + W*co, lo>=0, lo<W, co>=0, co<=1])
    return lo, co
def mul64(a, b, A, B):
    cnt[0]+=1
    hi = Int('hi%d'%cnt[0]); lo = Int('mlo%d'%cnt[0])
    ass.extend([a*b == lo + W*hi, lo>=0, lo<W, hi>=0, hi<W])
    # bound lemma (valid arithmetic): a<=A, b<=B -> a*b <= A*B
    ass.append(a*b <= A*B); ass.append(a*b >= 0)
    return lo, hi
obl = []
H0, c = add64(h0, m0, 0)
H1, c = add64(h1, m1, c)
H2 = h2 + c + 1   # wrap? h2<=5 so no
R0M, R1M = 0x0FFFFFFC0FFFFFFF, 0x0FFFFFFC0FFFFFFC
h0r0 = mul64(H0, r0, W-1, R0M); h1r0 = mul64(H1, r0, W-1, R0M); h2r0 = mul64(H2, r0, 7, R0M)
h0r1 = mul64(H0, r1, W-1, R1M); h1r1 = mul64(H1, r1, W-1, R1M); h2r1 = mul64(H2, r1, 7, R1M)
obl.append(('h2r0.hi==0', h2r0[1] == 0)); obl.append(('h2r1.hi==0', h2r1[1] == 0))
def add128(a, b, name):
    lo, c = add64(a[0], b[0], 0)
    hi, c = add64(a[1], b[1], c)
    obl.append((name+' no overflow', c == 0))
    return lo, hi
mm0 = h0r0
mm1 = add128(h1r0, h0r1, 'm1')
mm2 = add128(h2r0, h1r1, 'm2')
mm3 = h2r1
t0 = mm0[0]
t1, c = add64(mm1[0], mm0[1], 0)
t2, c = add64(mm2[0], mm1[1], c)
t3, c3 = add64(mm3[0], mm2[1], c)
obl.append(('t3 no carry', c3 == 0))
# t2 & 3, t2 & ~3
t2lo = Int('t2lo'); t2hi = Int('t2hi')
ass += [t2 == t2lo + 4*t2hi, t2lo >= 0, t2lo < 4, t2hi >= 0]
g0, g1, g2 = t0, t1, t2lo
cclo, cchi = 4*t2hi, t3
g0, c = add64(g0, cclo, 0)
g1, c = add64(g1, cchi, c)
g2 = g2 + c
# shiftRightBy2: lo = lo>>2 | (hi&3)<<62 ; hi = hi>>2
t3lo = Int('t3lo'); t3hi = Int('t3hi')
ass += [t3 == t3lo + 4*t3hi, t3lo>=0, t3lo<4, t3hi>=0]
cclo2 = t2hi + t3lo * 2**62
cchi2 = t3hi
g0, c = add64(g0, cclo2, 0)
g1, c = add64(g1, cchi2, c)
g2 = g2 + c
Hin = h0 + W*h1 + W*W*h2 + m0 + W*m1 + W*W
Rv = r0 + W*r1
Hout = g0 + W*g1 + W*W*g2
k = Int('k')
# congruence: Hout == Hin*Rv - k*P  for k = c (the carry count) = t2hi + t3 * 2^62
kk = t2hi + t3*(2**62)
obl.append(('congruent', Hout == (H0 + W*H1 + W*W*H2)*Rv - kk*P))
obl.append(('H sum', H0 + W*H1 + W*W*H2 == Hin))
obl.append(('h2 bound', g2 <= 4))
for name, o in obl:
    s = SolverFor('QF_NIA') if len(sys.argv)>1 else Solver()
    s.set('timeout', 60000)
    s.add(ass); s.add(Not(o))
    t=time.time(); r = s.check(); print(name, r, '%.2fs'%(time.time()-t))
s = Solver(); s.set('timeout', 60000); s.add(ass); t=time.time(); print('vacuity (assumptions sat?)', s.check(), '%.2fs'%(time.time()-t))
s = Solver(); s.set('timeout', 60000); s.add(ass); s.add(g2 == 4); t=time.time(); print('g2==4 reachable?', s.check(), '%.2fs'%(time.time()-t))
s = Solver(); s.set('timeout', 60000); s.add(ass); s.add(Not(g2 <= 3)); t=time.time(); print('g2<=3 ?', s.check(), '%.2fs'%(time.time()-t))
