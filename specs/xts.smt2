; spec benc (Int Int Int Int Int Int Int Int Int Int Int Int Int Int Int Int Int Int) Int
; benc(k, x0..x15, j): byte j of the 16-byte block cipher k applied to the block x0..x15
; (uninterpreted: AES itself is outside the integer encoding)
(declare-fun benc (Int Int Int Int Int Int Int Int Int Int Int Int Int Int Int Int Int Int) Int)
(assert (forall ((k Int) (x0 Int) (x1 Int) (x2 Int) (x3 Int) (x4 Int) (x5 Int) (x6 Int) (x7 Int) (x8 Int) (x9 Int) (x10 Int) (x11 Int) (x12 Int) (x13 Int) (x14 Int) (x15 Int) (j Int))
  (! (and (<= 0 (benc k x0 x1 x2 x3 x4 x5 x6 x7 x8 x9 x10 x11 x12 x13 x14 x15 j)) (<= (benc k x0 x1 x2 x3 x4 x5 x6 x7 x8 x9 x10 x11 x12 x13 x14 x15 j) 255))
     :pattern ((benc k x0 x1 x2 x3 x4 x5 x6 x7 x8 x9 x10 x11 x12 x13 x14 x15 j)))))
; spec bdec (Int Int Int Int Int Int Int Int Int Int Int Int Int Int Int Int Int Int) Int
(declare-fun bdec (Int Int Int Int Int Int Int Int Int Int Int Int Int Int Int Int Int Int) Int)
(assert (forall ((k Int) (x0 Int) (x1 Int) (x2 Int) (x3 Int) (x4 Int) (x5 Int) (x6 Int) (x7 Int) (x8 Int) (x9 Int) (x10 Int) (x11 Int) (x12 Int) (x13 Int) (x14 Int) (x15 Int) (j Int))
  (! (and (<= 0 (bdec k x0 x1 x2 x3 x4 x5 x6 x7 x8 x9 x10 x11 x12 x13 x14 x15 j)) (<= (bdec k x0 x1 x2 x3 x4 x5 x6 x7 x8 x9 x10 x11 x12 x13 x14 x15 j) 255))
     :pattern ((bdec k x0 x1 x2 x3 x4 x5 x6 x7 x8 x9 x10 x11 x12 x13 x14 x15 j)))))
; spec xor135 (Int) Int
; v xor 0x87 for a byte v (IEEE 1619: reduction by x^128 + x^7 + x^2 + x + 1)
(define-fun xor135 ((v Int)) Int
  (+ v (* (- 1 (* 2 (mod v 2))) 1) (* (- 1 (* 2 (mod (div v 2) 2))) 2) (* (- 1 (* 2 (mod (div v 4) 2))) 4) (* (- 1 (* 2 (mod (div v 128) 2))) 128)))
; spec xtw (Int Int Int Int) Int
; xtw(k2, s, b, j): byte j of the XTS tweak for block b of sector s: block 0 is the encryption under k2 of
; the sector number as 16 little-endian bytes, block b+1 is block b multiplied by x in GF(2^128)
(define-fun-rec xtw ((k Int) (s Int) (b Int) (j Int)) Int
  (ite (<= b 0)
       (benc k (mod s 256) (mod (div s 256) 256) (mod (div s 65536) 256) (mod (div s 16777216) 256) (mod (div s 4294967296) 256) (mod (div s 1099511627776) 256) (mod (div s 281474976710656) 256) (mod (div s 72057594037927936) 256) 0 0 0 0 0 0 0 0 j)
       (ite (= j 0)
            (ite (>= (xtw k s (- b 1) 15) 128) (xor135 (mod (* 2 (xtw k s (- b 1) 0)) 256)) (mod (* 2 (xtw k s (- b 1) 0)) 256))
            (mod (+ (* 2 (xtw k s (- b 1) j)) (div (xtw k s (- b 1) (- j 1)) 128)) 256))))
