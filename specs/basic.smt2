; Basic abstract functions shared by several contracts.
; spec hashsize (Int) Int
(declare-fun hashsize (Int) Int)
(assert (forall ((h Int)) (! (and (>= (hashsize h) 1) (<= (hashsize h) 1048576)) :pattern ((hashsize h)))))
; functions defined in the engine's preamble, made visible to contracts:
; spec ispow2 (Int) Bool
; spec pow2f (Int) Int
; spec hsize (Int) Int
; output size in bytes of a hash.Hash value (by interface identity)
(declare-fun hsize (Int) Int)
(assert (forall ((h Int)) (! (and (>= (hsize h) 1) (<= (hsize h) 1048576)) :pattern ((hsize h)))))
; spec modexp (Int Int Int) Int
; x^y mod m (uninterpreted: only its identity matters to the contracts that use it)
(declare-fun modexp (Int Int Int) Int)
; spec curvep (Int) Int
; the field prime of an elliptic.Curve value (by interface identity)
(declare-fun curvep (Int) Int)
(assert (forall ((c Int)) (! (> (curvep c) 3) :pattern ((curvep c)))))
; spec oncurve (Int Int Int) Bool
; elliptic.Curve.IsOnCurve as a relation on mathematical integers
(declare-fun oncurve (Int Int Int) Bool)
; spec aeadoh (Int) Int
; Overhead() of a cipher.AEAD value (by interface identity)
(declare-fun aeadoh (Int) Int)
(assert (forall ((a Int)) (! (and (>= (aeadoh a) 0) (<= (aeadoh a) 1024)) :pattern ((aeadoh a)))))
; spec bsize (Int) Int
; BlockSize() of a cipher.BlockMode / cipher.Block value (by interface identity)
(declare-fun bsize (Int) Int)
(assert (forall ((a Int)) (! (and (>= (bsize a) 1) (<= (bsize a) 1024)) :pattern ((bsize a)))))
