; Basic abstract functions shared by several contracts.
; spec hashsize (Int) Int
(declare-fun hashsize (Int) Int)
(assert (forall ((h Int)) (! (and (>= (hashsize h) 1) (<= (hashsize h) 1048576)) :pattern ((hashsize h)))))
; functions defined in the engine's preamble, made visible to contracts:
; spec ispow2 (Int) Bool
; spec pow2f (Int) Int
; spec hsize (Int) Int
; output size in bytes of a hash.Hash value (by interface identity)
(declare-fun hsize (Int) Int)
(assert (forall ((h Int)) (! (and (>= (hsize h) 1) (<= (hsize h) 1048576)) :pattern ((hsize h)))))
