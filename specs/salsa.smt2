; spec sks (Int Int Int Int) Int
; sks(k, n, c, j): byte j (0..63) of the Salsa20 block for the key object k,
; the 64-bit little-endian nonce n and block counter c. Uninterpreted: the
; core (quarter rounds over 32-bit words) is outside the integer encoding.
(declare-fun sks (Int Int Int Int) Int)
(assert (forall ((k Int) (n Int) (c Int) (j Int)) (! (and (<= 0 (sks k n c j)) (<= (sks k n c j) 255)) :pattern ((sks k n c j)))))
