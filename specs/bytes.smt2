; Big-endian value of n bytes of a row starting at offset o, and 256^n.
; spec beval ((Array Int Int) Int Int) Int
; spec pow256 (Int) Int
(define-fun-rec beval ((R (Array Int Int)) (o Int) (n Int)) Int
  (ite (<= n 0) 0 (+ (* 256 (beval R o (- n 1))) (select R (+ o (- n 1))))))
(define-fun-rec pow256 ((n Int)) Int (ite (<= n 0) 1 (* 256 (pow256 (- n 1)))))
; spec pow2n (Int) Int
(define-fun-rec pow2n ((n Int)) Int (ite (<= n 0) 1 (* 2 (pow2n (- n 1)))))
; bit length of a non-negative integer (0 for 0); kept abstract, with its defining bounds
; spec bitlen (Int) Int
(declare-fun bitlen (Int) Int)
(assert (= (bitlen 0) 0))
(assert (forall ((x Int)) (! (=> (> x 0) (and (>= (bitlen x) 1) (<= (pow2n (- (bitlen x) 1)) x) (< x (pow2n (bitlen x))))) :pattern ((bitlen x)))))
