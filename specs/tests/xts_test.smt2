; include xts.smt2
; xor 0x87 on some bytes
(assert (not (and (= (xor135 0) 135) (= (xor135 2) 133) (= (xor135 254) 121) (= (xor135 128) 7))))
(check-sat)
