; OpenSSH match_pattern (match.c): '*' matches any sequence of characters
; including the empty one, '?' matches exactly one character.
; Patterns and strings are (row, offset, length) triples over byte arrays.
; spec glob ((Array Int Int) Int Int (Array Int Int) Int Int) Bool
; spec globstar ((Array Int Int) Int Int (Array Int Int) Int Int Int) Bool
(define-funs-rec
  ((glob ((P (Array Int Int)) (po Int) (pl Int) (S (Array Int Int)) (so Int) (sl Int)) Bool)
   (globstar ((P (Array Int Int)) (po Int) (pl Int) (S (Array Int Int)) (so Int) (sl Int) (k Int)) Bool))
  ((ite (<= pl 0) (<= sl 0)
     (ite (= (select P po) 42)
          (ite (= pl 1) true (globstar P (+ po 1) (- pl 1) S so sl 0))
          (ite (<= sl 0) false
               (ite (or (= (select P po) 63) (= (select P po) (select S so)))
                    (glob P (+ po 1) (- pl 1) S (+ so 1) (- sl 1))
                    false))))
   (and (<= 0 k) (<= k sl)
        (or (glob P po pl S (+ so k) (- sl k))
            (globstar P po pl S so sl (+ k 1))))))
