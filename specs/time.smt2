; Abstract instant (nanoseconds) denoted by a time.Time value (wall, ext).
; spec tns (Int Int) Int
(declare-fun tns (Int Int) Int)
