; spec ks (Int Int) Int
; ks(c, q): byte q (0-based) of the keystream of the Cipher object c, i.e.
; byte q mod 64 of the ChaCha20 block function for block q div 64 under the
; key and nonce stored in c. Uninterpreted: the block function itself
; (quarter rounds, 32-bit rotations) is outside the integer encoding; what
; the contracts decide is which keystream byte meets which input byte.
(declare-fun ks (Int Int) Int)
(assert (forall ((c Int) (q Int)) (! (and (<= 0 (ks c q)) (<= (ks c q) 255)) :pattern ((ks c q)))))
