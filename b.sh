#!/bin/bash
# build govc
export PATH=/opt/veriftools/go1.26.8/bin:$PATH GOTOOLCHAIN=local GOFLAGS=-mod=vendor GOPROXY=off GOSUMDB=off
cd /verif/govc && go build -o /verif/bin/govc . 
