package main

// Symbolic execution of one function over its SSA control-flow graph.
// Back edges are cut at loop heads (invariants); acyclic regions are merged
// with ite; every potentially panicking instruction yields an obligation.

import (
	"fmt"
	"go/ast"
	"go/token"
	"go/types"
	"sort"
	"strings"

	"golang.org/x/tools/go/ssa"
)

type Obligation struct {
	Key     string
	Kind    string // post pre inv-entry inv-step bounds nil div overflow panic frame assert conv
	Func    string
	Desc    string
	Pos     string
	Prefix  int    // number of script lines that precede it
	Goal    string // must be valid given the prefix
	Canary  bool
	Cover   bool // reachability cover: expected sat/unknown, unsat = vacuity
	Clause  string
	Result  *solverResult
	All     []solverResult
	queryFile string
	batch     bool
	pins      []string // extra constraints fixing a concretised model
	weakened  bool     // queryFile is the variant without quantified assumptions
	fullQuery string   // the complete query when queryFile is a weakened variant
	QueryKB int
	ctx     *FnCtx
}

type epoch struct {
	id      int
	parents []*State
	conds   []string
	cache   map[string]string
	// preserved rows for a havoc-all epoch: key -> list of (ref, previous state)
	prev     *State
	keepRefs []keepRef
}

type keepRef struct {
	ref  string
	keys []string
}

type State struct {
	guard string
	heap  map[string]string
	ep    *epoch
	wm    string
	// snap: values of registers defined inside an unrolled loop, as they
	// were when this state left the loop (different iterations leave with
	// different values; they are merged where the exit edges join).
	snap map[ssa.Value]Val
}

func (s *State) clone() *State {
	n := &State{guard: s.guard, heap: make(map[string]string, len(s.heap)), ep: s.ep, wm: s.wm, snap: s.snap}
	for k, v := range s.heap {
		n.heap[k] = v
	}
	return n
}

type localAlloc struct {
	ref     string
	typ     types.Type
	escaped bool
}

type FnCtx struct {
	eng       *Engine
	fn        *ssa.Function
	con       *Contract
	script    []string
	heapSort  map[string]string
	ctr       int
	obls      []*Obligation
	entry     *State
	epochCtr  int
	locals    []localAlloc
	pathIDs   map[string]int
	strLits   map[string]string
	assumed   []string // textual list of assumptions used (for evidence)
	depth     int
	occ       map[string]int
	panicCond string // entry-state condition under which a panic is documented ("false" if none)
	notes     []string
	unrolled  int
	boundedIters int
	marks     map[string]*State // mark NAME "text": state before that line
	matched   map[*Clause]bool  // assert_at / check_at / mark clauses whose line was found
	unbound   []string          // clauses that could not be bound to the code
	srcCache  map[string][]string
	ghost     map[string]Val
	dry       int
	writeHook func(key, ref string, full bool)
	qctr      int
	usedSpecs map[string]bool
	lets      map[string]Val
	quiet     bool
	nonNil    map[string]bool
	decOf     map[string]string
	fnFacts   map[string]bool
	replayParams []replayParam
	replayAssume []string
	resultVals   []Val
	exitState    *State
	atoms        map[string]string
	strSrc       map[string][3]string // string made from bytes: row, offset, length
	litText      map[string]string    // string literal constant -> its text
	canaryNext   bool
	stridSeen    map[string]bool
	defs         map[string]string // name -> defining term (define-fun and atoms)
	bounded      int // > 0: bounded stand-in run, loops explored up to this many iterations
}

type frame struct {
	fn      *ssa.Function
	regs    map[ssa.Value]Val
	params  []Val
	free    []Val
	defers  []*ssa.Defer
	con     *Contract
	top     bool
	retVals [][]Val
	retSts  []*State
	loops   map[*ssa.BasicBlock]*loopInfo
	order   []*ssa.BasicBlock
	loopOrd map[*ssa.BasicBlock]int
	loopAuto  map[*loopInfo][]autoInv
	unrolling map[*loopInfo]bool
	deferArgs []callArgs
	lastLine  int
	loopEntrySt map[*loopInfo]*State // state in which each cut loop was entered
}

type loopInfo struct {
	head   *ssa.BasicBlock
	blocks map[*ssa.BasicBlock]bool
	backs  []*ssa.BasicBlock
	ord    int
}

func (c *FnCtx) fresh(prefix string) string {
	c.ctr++
	return fmt.Sprintf("%s!%d", prefix, c.ctr)
}

func (c *FnCtx) emit(line string) { c.script = append(c.script, line) }

func (c *FnCtx) declare(prefix, sort string) string {
	n := c.fresh(prefix)
	c.emit(fmt.Sprintf("(declare-const %s %s)", n, sort))
	return n
}

// def names a term when it is large enough to be worth sharing.
func (c *FnCtx) def(prefix, sort, term string) string {
	if len(term) < 40 && !strings.Contains(term, "ite") {
		return term
	}
	return c.defAlways(prefix, sort, term)
}

func (c *FnCtx) defAlways(prefix, sort, term string) string {
	n := c.fresh(prefix)
	if c.defs == nil {
		c.defs = map[string]string{}
	}
	c.defs[n] = term
	c.emit(fmt.Sprintf("(define-fun %s () %s %s)", n, sort, term))
	return n
}

// defRow defines an array by its element at index i. z3 gets a lambda
// (no quantifier); other back ends get a constant with a defining axiom.
// Script lines tagged "#z3# " / "#gen# " go only into that variant.
func (c *FnCtx) defRow(sort, bodyOverI string) string {
	n := c.fresh("row")
	as := "(Array Int " + sort + ")"
	c.emit(fmt.Sprintf("#z3# (define-fun %s () %s (lambda ((i Int)) %s))", n, as, bodyOverI))
	c.emit(fmt.Sprintf("#gen# (declare-const %s %s)", n, as))
	c.emit(fmt.Sprintf("#gen# (assert (forall ((i Int)) (! (= (select %s i) %s) :pattern ((select %s i)))))", n, bodyOverI, n))
	return n
}

func (c *FnCtx) assume(st *State, cond string) {
	if cond == "true" {
		return
	}
	// one assertion per conjunct: a quantified conjunct can then be left out
	// of a weakened query without losing its ground neighbours
	if parts := topConjuncts(cond); len(parts) > 1 && (strings.Contains(cond, "(forall ") || strings.Contains(cond, "(exists ")) {
		for _, p := range parts {
			c.assume(st, p)
		}
		return
	}
	c.emit("(assert " + implies(st.guard, cond) + ")")
}

// topConjuncts splits "(and a b ...)" into its arguments (nil otherwise).
func topConjuncts(t string) []string {
	if !strings.HasPrefix(t, "(and ") || !strings.HasSuffix(t, ")") {
		return nil
	}
	body := t[5 : len(t)-1]
	var out []string
	depth, start := 0, 0
	for i := 0; i < len(body); i++ {
		switch body[i] {
		case '(':
			depth++
		case ')':
			depth--
			if depth < 0 {
				return nil
			}
		case ' ':
			if depth == 0 {
				if i > start {
					out = append(out, body[start:i])
				}
				start = i + 1
			}
		case '|':
			// quoted symbol: skip to the closing bar
			j := strings.IndexByte(body[i+1:], '|')
			if j < 0 {
				return nil
			}
			i += j + 1
		}
	}
	if depth != 0 {
		return nil
	}
	if start < len(body) {
		out = append(out, body[start:])
	}
	return out
}

func (c *FnCtx) assumeRaw(cond string) {
	if cond == "true" {
		return
	}
	c.emit("(assert " + cond + ")")
}

func (c *FnCtx) posString(p token.Pos) string {
	if !p.IsValid() {
		return ""
	}
	pp := c.eng.fset.Position(p)
	return fmt.Sprintf("%s:%d", strings.TrimPrefix(pp.Filename, "/repo/"), pp.Line)
}

func (c *FnCtx) srcLine(p token.Pos) string {
	if !p.IsValid() {
		return ""
	}
	pp := c.eng.fset.Position(p)
	lines, ok := c.srcCache[pp.Filename]
	if !ok {
		lines = readLines(pp.Filename)
		if c.srcCache == nil {
			c.srcCache = map[string][]string{}
		}
		c.srcCache[pp.Filename] = lines
	}
	if pp.Line-1 < len(lines) && pp.Line > 0 {
		return strings.TrimSpace(lines[pp.Line-1])
	}
	return ""
}

// oblige records "guard => cond" as an obligation, then assumes cond.
// If the function documents a panic condition, a safety obligation may be
// satisfied by that condition instead.
func (c *FnCtx) oblige(st *State, kind, desc, cond string, pos token.Pos, clause string) *Obligation {
	if cond == "true" {
		c.canaryNext = false
		return nil
	}
	goalCond := cond
	switch kind {
	case "bounds", "nil", "div", "panic", "conv", "pre-panic":
		if c.panicCond != "false" && c.panicCond != "" {
			goalCond = or(cond, c.panicCond)
		}
	}
	fname := c.fn.String()
	text := clause
	if text == "" {
		text = c.srcLine(pos)
		if text == "" {
			text = desc
		}
	}
	base := fmt.Sprintf("%s/%s/%s", shortFunc(fname), kind, hash8(text+"|"+descClass(kind, desc)))
	if c.occ == nil {
		c.occ = map[string]int{}
	}
	c.occ[base]++
	key := fmt.Sprintf("%s#%d", base, c.occ[base])
	o := &Obligation{Key: key, Kind: kind, Func: fname, Desc: desc, Pos: c.posString(pos), Prefix: len(c.script), Goal: implies(st.guard, goalCond), Clause: clause, ctx: c}
	c.obls = append(c.obls, o)
	if c.canaryNext {
		// a canary is a deliberately false clause: never assume it
		o.Canary = true
		c.canaryNext = false
	} else {
		c.assume(st, cond)
	}
	return o
}

func descClass(kind, desc string) string {
	// keep only the stable part of a description (no register names)
	if i := strings.Index(desc, " @"); i >= 0 {
		return desc[:i]
	}
	return desc
}

// ---- heap access ----

func (c *FnCtx) heapSortOf(key string) string {
	s, ok := c.heapSort[key]
	if !ok {
		panic("heap key without sort: " + key)
	}
	return "(Array Int (Array Int " + s + "))"
}

func (c *FnCtx) newEpoch() *epoch {
	c.epochCtr++
	return &epoch{id: c.epochCtr, cache: map[string]string{}}
}

func (c *FnCtx) heapGet(st *State, key, leafSort string) string {
	if c.heapSort == nil {
		c.heapSort = map[string]string{}
	}
	if old, ok := c.heapSort[key]; ok && old != leafSort {
		bail("heap key %s used at sorts %s and %s", key, old, leafSort)
	}
	c.heapSort[key] = leafSort
	if t, ok := st.heap[key]; ok {
		return t
	}
	return c.epochGet(st.ep, key)
}

func (c *FnCtx) epochGet(ep *epoch, key string) string {
	if t, ok := ep.cache[key]; ok {
		return t
	}
	var t string
	name := fmt.Sprintf("%s@e%d", key, ep.id)
	switch {
	case len(ep.parents) > 0:
		// merged epoch: ite over the parents' views
		term := ""
		for i := len(ep.parents) - 1; i >= 0; i-- {
			p := ep.parents[i]
			pv, ok := p.heap[key]
			if !ok {
				pv = c.epochGet(p.ep, key)
			}
			if term == "" {
				term = pv
			} else {
				term = ite(ep.conds[i], pv, term)
			}
		}
		c.emit(fmt.Sprintf("(define-fun %s () %s %s)", name, c.heapSortOf(key), term))
		t = name
	case ep.prev != nil && strings.HasPrefix(key, "G_"):
		// ghost fields are specification state: code without a contract cannot
		// change them (contracts that do say so with "modifies ghost(...)")
		pv, ok := ep.prev.heap[key]
		if !ok {
			pv = c.epochGet(ep.prev.ep, key)
		}
		t = pv
	case ep.prev != nil:
		// havoc-all epoch that keeps the rows of non-escaped locals
		c.emit(fmt.Sprintf("(declare-const %s$h %s)", name, c.heapSortOf(key)))
		term := name + "$h"
		pv, ok := ep.prev.heap[key]
		if !ok {
			pv = c.epochGet(ep.prev.ep, key)
		}
		for _, kr := range ep.keepRefs {
			for _, k := range kr.keys {
				if k == key {
					term = sx("store", term, kr.ref, sx("select", pv, kr.ref))
				}
			}
		}
		c.emit(fmt.Sprintf("(define-fun %s () %s %s)", name, c.heapSortOf(key), term))
		t = name
	default:
		c.emit(fmt.Sprintf("(declare-const %s %s)", name, c.heapSortOf(key)))
		t = name
	}
	ep.cache[key] = t
	return t
}

// heapWriteRow replaces the whole row (object contents) of ref in key.
func (c *FnCtx) heapWriteRow(st *State, key, leafSort, ref, row string) {
	h := c.heapGet(st, key, leafSort)
	st.heap[key] = c.defAlways(key, c.heapSortOf(key), sx("store", h, ref, row))
	if c.writeHook != nil {
		c.writeHook(key, ref, false)
	}
}

// heapWrite stores one cell.
func (c *FnCtx) heapWrite(st *State, key, leafSort, ref, idx, val string) {
	h := c.heapGet(st, key, leafSort)
	c.heapWriteRow(st, key, leafSort, ref, sx("store", sx("select", h, ref), idx, val))
}

// heapSet is used by the loop head to install a havocked version.
func (c *FnCtx) heapSet(st *State, key, leafSort, term string) {
	if c.heapSort == nil {
		c.heapSort = map[string]string{}
	}
	c.heapSort[key] = leafSort
	st.heap[key] = c.defAlways(key, c.heapSortOf(key), term)
}

// heapHavocKey forgets everything about one key.
func (c *FnCtx) heapHavocKey(st *State, key, leafSort string) {
	c.heapGet(st, key, leafSort)
	st.heap[key] = c.declare(key+"$hv", c.heapSortOf(key))
	if c.writeHook != nil {
		c.writeHook(key, "", true)
	}
}

func (c *FnCtx) note(format string, a ...interface{}) {
	s := fmt.Sprintf(format, a...)
	for _, n := range c.notes {
		if n == s {
			return
		}
	}
	c.notes = append(c.notes, s)
}

// leafKeys lists the heap keys (with leaf types) that make up a value of
// type t stored at root/path; embedded arrays are reported separately.
type leafKey struct {
	key   string
	typ   types.Type
	path  []int
	array bool // embedded array field (own object)
}

func leafKeysOf(root types.Type, path []int, t types.Type, out *[]leafKey) {
	switch u := t.Underlying().(type) {
	case *types.Struct:
		if len(path) > 0 {
			// a struct-typed field is an object of its own (subref)
			*out = append(*out, leafKey{key: heapKey(root, path), typ: t, path: path, array: true})
			return
		}
		for i := 0; i < u.NumFields(); i++ {
			p := append(append([]int{}, path...), i)
			leafKeysOf(root, p, u.Field(i).Type(), out)
		}
	case *types.Array:
		if len(path) == 0 {
			// the object itself is an array of elements
			leafKeysOf(u.Elem(), nil, u.Elem(), out)
			return
		}
		*out = append(*out, leafKey{key: heapKey(root, path), typ: t, path: path, array: true})
	default:
		*out = append(*out, leafKey{key: heapKey(root, path), typ: t, path: path})
	}
}

func (c *FnCtx) pathID(root types.Type, path []int) string {
	k := heapKey(root, path)
	if c.pathIDs == nil {
		c.pathIDs = map[string]int{}
	}
	id, ok := c.eng.pathIDs[k]
	if !ok {
		id = len(c.eng.pathIDs) + 1
		c.eng.pathIDs[k] = id
	}
	return num(int64(id))
}

// fieldAddr computes &p.f for field index k.
func (c *FnCtx) fieldAddr(p Val, k int, resT types.Type) Val {
	st := mustStruct(pointeeOfVal(p))
	ft := st.Field(k).Type()
	path := append(append([]int{}, p.Path...), k)
	if at, ok := ft.Underlying().(*types.Array); ok {
		return Val{K: kPtr, T: resT, Ref: sx("subref", p.Ref, p.Idx, c.pathID(p.Root, path)), Idx: "0", Root: at.Elem()}
	}
	if _, ok := ft.Underlying().(*types.Struct); ok {
		// a struct stored by value in a field is an object of its own
		return Val{K: kPtr, T: resT, Ref: sx("subref", p.Ref, p.Idx, c.pathID(p.Root, path)), Idx: "0", Root: ft}
	}
	return Val{K: kPtr, T: resT, Ref: p.Ref, Idx: p.Idx, Root: p.Root, Path: path}
}

func mustStruct(t types.Type) *types.Struct {
	st, ok := t.Underlying().(*types.Struct)
	if !ok {
		bail("expected struct, got %s", t)
	}
	return st
}

// pointeeOfVal: the type a pointer value points at, from Root/Path.
func pointeeOfVal(p Val) types.Type {
	if p.T != nil {
		if pt, ok := p.T.Underlying().(*types.Pointer); ok {
			return pt.Elem()
		}
	}
	t, _ := fieldAt(p.Root, p.Path)
	return t
}

func (c *FnCtx) load(st *State, p Val, t types.Type) Val {
	switch u := t.Underlying().(type) {
	case *types.Struct:
		v := Val{K: kStruct, T: t}
		for i := 0; i < u.NumFields(); i++ {
			fp := c.fieldAddr(Val{K: kPtr, T: types.NewPointer(t), Ref: p.Ref, Idx: p.Idx, Root: p.Root, Path: p.Path}, i, types.NewPointer(u.Field(i).Type()))
			v.Fields = append(v.Fields, c.load(st, fp, u.Field(i).Type()))
		}
		return v
	case *types.Array:
		if len(p.Path) != 0 {
			bail("load of array through field path")
		}
		es := sortOfElem(u.Elem())
		key := heapKey(p.Root, nil)
		h := c.heapGet(st, key, es)
		if p.Idx != "0" {
			bail("load of whole array at non-zero index")
		}
		return Val{K: kArray, T: t, S: sx("select", h, p.Ref)}
	}
	key := heapKey(p.Root, p.Path)
	ls := sortOf(t)
	h := c.heapGet(st, key, ls)
	term := sx("select", sx("select", h, p.Ref), p.Idx)
	if c.quiet {
		return fromTerm(t, term)
	}
	term = c.def("ld", ls, term)
	v := fromTerm(t, term)
	c.assumeWellTyped(st, v)
	return v
}

func sortOfElem(t types.Type) string { return sortOf(t) }

// assumeWellTyped adds the facts the Go type system guarantees for a value
// that came from memory, a parameter or an unknown callee.
func (c *FnCtx) assumeWellTyped(st *State, v Val) {
	switch v.K {
	case kInt:
		if v.T == nil {
			return
		}
		if ii, ok := intInfoOf(v.T); ok {
			if _, lit := isNumLit(v.S); !lit {
				c.assume(st, ii.inRange(v.S))
			}
		}
	case kSlice:
		c.assume(st, and(sx("<=", "0", v.Off), sx("<=", add(v.Off, v.Cap), "281474976710656"), sx("<=", "0", v.Len), sx("<=", v.Len, v.Cap), sx("<", v.Ref, st.wm), implies(eq(v.Ref, "0"), eq(v.Cap, "0"))))
		if c.eng.usesAddr || c.fn.Pkg != nil && strings.HasSuffix(c.fn.Pkg.Pkg.Path(), "internal/alias") {
			esz := int64(1)
			if v.Root != nil && kindOf(v.Root) != kStruct {
				esz = c.eng.sizeof(v.Root)
			}
			c.assume(st, sx("<=", mul(add(v.Off, v.Cap), num(esz)), sx("objsize", v.Ref)))
		}
	case kPtr:
		c.assume(st, sx("<", v.Ref, st.wm))
	case kStr:
		c.assume(st, and(sx("<=", "0", sx("slen", v.S)), sx("<=", sx("slen", v.S), "281474976710656")))
	case kStruct, kTuple:
		for _, f := range v.Fields {
			c.assumeWellTyped(st, f)
		}
	case kIface, kMap:
		c.assume(st, sx("<", v.S, st.wm))
	}
}

func (c *FnCtx) store(st *State, p Val, v Val) {
	switch v.K {
	case kStruct:
		stt := mustStruct(v.T)
		for i := range v.Fields {
			fp := c.fieldAddr(Val{K: kPtr, T: types.NewPointer(v.T), Ref: p.Ref, Idx: p.Idx, Root: p.Root, Path: p.Path}, i, types.NewPointer(stt.Field(i).Type()))
			c.store(st, fp, v.Fields[i])
		}
		return
	case kArray:
		if len(p.Path) != 0 || p.Idx != "0" {
			bail("store of whole array through interior pointer")
		}
		at := v.T.Underlying().(*types.Array)
		es := sortOf(at.Elem())
		key := heapKey(p.Root, nil)
		h := c.heapGet(st, key, es)
		_ = h
		c.heapWriteRow(st, key, es, p.Ref, v.S)
		return
	}
	key := heapKey(p.Root, p.Path)
	ls := sortOf(v.T)
	if v.T == nil {
		bail("store of untyped value")
	}
	c.heapWrite(st, key, ls, p.Ref, p.Idx, toTerm(v))
}

// zero value of a type
func (c *FnCtx) zero(t types.Type) Val {
	switch kindOf(t) {
	case kInt:
		return intVal(t, "0")
	case kBool:
		return Val{K: kBool, T: t, S: "false"}
	case kStr:
		return strVal(t, c.strLit(""))
	case kPtr:
		return ptrVal(t, "0", "0")
	case kSlice:
		return Val{K: kSlice, T: t, Root: t.Underlying().(*types.Slice).Elem(), Ref: "0", Off: "0", Len: "0", Cap: "0"}
	case kIface:
		return Val{K: kIface, T: t, S: "0"}
	case kMap:
		return Val{K: kMap, T: t, S: "0"}
	case kFunc:
		return Val{K: kFunc, T: t, S: "0"}
	case kOpaque:
		return Val{K: kOpaque, T: t, S: "0"}
	case kStruct:
		st := mustStruct(t)
		v := Val{K: kStruct, T: t}
		for i := 0; i < st.NumFields(); i++ {
			v.Fields = append(v.Fields, c.zero(st.Field(i).Type()))
		}
		return v
	case kArray:
		at := t.Underlying().(*types.Array)
		return Val{K: kArray, T: t, S: c.zeroArray(at.Elem())}
	}
	bail("zero: type %s", t)
	return Val{}
}

func (c *FnCtx) zeroArray(elem types.Type) string {
	es := sortOf(elem)
	z := c.zero(elem)
	return sx("(as const (Array Int "+es+"))", toTerm(z))
}

func (c *FnCtx) strLit(s string) string {
	if c.strLits == nil {
		c.strLits = map[string]string{}
	}
	if n, ok := c.strLits[s]; ok {
		return n
	}
	n := c.fresh("str")
	c.emit(fmt.Sprintf("(declare-const %s Str)", n))
	c.emit(fmt.Sprintf("(assert (= (slen %s) %d))", n, len(s)))
	for i := 0; i < len(s) && i < 256; i++ {
		c.emit(fmt.Sprintf("(assert (= (sat %s %d) %d))", n, i, s[i]))
	}
	// distinct literals are distinct values
	for o, on := range c.strLits {
		if o != s {
			c.emit(fmt.Sprintf("(assert (not (= %s %s)))", n, on))
		}
	}
	c.strLits[s] = n
	if c.litText == nil {
		c.litText = map[string]string{}
	}
	c.litText[n] = s
	return n
}

// freshVal declares an unconstrained value of type t (then well-typed).
func (c *FnCtx) freshVal(st *State, t types.Type, prefix string) Val {
	switch kindOf(t) {
	case kStruct:
		stt := mustStruct(t)
		v := Val{K: kStruct, T: t}
		for i := 0; i < stt.NumFields(); i++ {
			v.Fields = append(v.Fields, c.freshVal(st, stt.Field(i).Type(), prefix+"_"+stt.Field(i).Name()))
		}
		return v
	case kTuple:
		tt := t.(*types.Tuple)
		v := Val{K: kTuple, T: t}
		for i := 0; i < tt.Len(); i++ {
			v.Fields = append(v.Fields, c.freshVal(st, tt.At(i).Type(), fmt.Sprintf("%s_%d", prefix, i)))
		}
		return v
	case kSlice:
		n := c.declare(prefix, "Slice")
		v := fromTerm(t, n)
		c.assumeWellTyped(st, v)
		return v
	}
	n := c.declare(prefix, sortOf(t))
	v := fromTerm(t, n)
	c.assumeWellTyped(st, v)
	return v
}

// iteVal merges two values of the same shape.
func (c *FnCtx) iteVal(cond string, a, b Val) Val {
	if cond == "true" {
		return a
	}
	if cond == "false" {
		return b
	}
	switch a.K {
	case kStruct, kTuple:
		v := Val{K: a.K, T: a.T}
		for i := range a.Fields {
			v.Fields = append(v.Fields, c.iteVal(cond, a.Fields[i], b.Fields[i]))
		}
		return v
	case kSlice:
		return Val{K: kSlice, T: a.T, Root: a.Root, Ref: ite(cond, a.Ref, b.Ref), Off: ite(cond, a.Off, b.Off), Len: ite(cond, a.Len, b.Len), Cap: ite(cond, a.Cap, b.Cap)}
	case kPtr:
		if !samePath(a, b) {
			bail("merge of pointers with different static shapes")
		}
		r := a
		r.Ref = ite(cond, a.Ref, b.Ref)
		r.Idx = ite(cond, a.Idx, b.Idx)
		return r
	case kFunc:
		if a.Fn != nil || b.Fn != nil {
			if a.Fn == b.Fn && len(a.Bind) == 0 {
				return a
			}
			// two different function values meet: the merged value is opaque
			// (a call through it is a call to an unknown callee); a statically
			// known function is some non-nil value
			opaque := func(v Val) string {
				if v.Fn == nil {
					return v.S
				}
				k := c.declare("fnval", "Int")
				c.emit(fmt.Sprintf("(assert (not (= %s 0)))", k))
				return k
			}
			return Val{K: kFunc, T: a.T, S: ite(cond, opaque(a), opaque(b))}
		}
	}
	r := a
	r.S = ite(cond, a.S, b.S)
	return r
}

func samePath(a, b Val) bool {
	if len(a.Path) != len(b.Path) {
		return false
	}
	for i := range a.Path {
		if a.Path[i] != b.Path[i] {
			return false
		}
	}
	return types.Identical(a.Root, b.Root) || (b.Ref == "0" || a.Ref == "0")
}

// ---- CFG preparation ----

func (c *FnCtx) prepare(fr *frame) {
	fn := fr.fn
	fr.loops = map[*ssa.BasicBlock]*loopInfo{}
	// back edges: b -> h with h dominating b
	for _, b := range fn.Blocks {
		for _, s := range b.Succs {
			if s.Dominates(b) {
				li := fr.loops[s]
				if li == nil {
					li = &loopInfo{head: s, blocks: map[*ssa.BasicBlock]bool{s: true}}
					fr.loops[s] = li
				}
				li.backs = append(li.backs, b)
			}
		}
	}
	for _, li := range fr.loops {
		// natural loop: all blocks that reach a back-edge source without passing head
		var stack []*ssa.BasicBlock
		for _, b := range li.backs {
			if !li.blocks[b] {
				li.blocks[b] = true
				stack = append(stack, b)
			}
		}
		for len(stack) > 0 {
			b := stack[len(stack)-1]
			stack = stack[:len(stack)-1]
			for _, p := range b.Preds {
				if !li.blocks[p] {
					li.blocks[p] = true
					stack = append(stack, p)
				}
			}
		}
	}
	// loop ordinals in source order of the head's first position
	var heads []*ssa.BasicBlock
	for h := range fr.loops {
		heads = append(heads, h)
	}
	sort.Slice(heads, func(i, j int) bool {
		pi, pj := loopPos(fr.loops[heads[i]]), loopPos(fr.loops[heads[j]])
		if pi != pj {
			return pi < pj
		}
		return heads[i].Index < heads[j].Index
	})
	fr.loopOrd = map[*ssa.BasicBlock]int{}
	for i, h := range heads {
		fr.loops[h].ord = i + 1
		fr.loopOrd[h] = i + 1
	}
	// topological order ignoring back edges (reverse postorder)
	seen := map[*ssa.BasicBlock]bool{}
	var post []*ssa.BasicBlock
	var dfs func(b *ssa.BasicBlock)
	dfs = func(b *ssa.BasicBlock) {
		seen[b] = true
		for _, s := range b.Succs {
			if s.Dominates(b) { // back edge
				continue
			}
			if !seen[s] {
				dfs(s)
			}
		}
		post = append(post, b)
	}
	if len(fn.Blocks) > 0 {
		dfs(fn.Blocks[0])
	}
	for i := len(post) - 1; i >= 0; i-- {
		fr.order = append(fr.order, post[i])
	}
}

func loopPos(li *loopInfo) token.Pos {
	best := token.NoPos
	for b := range li.blocks {
		for _, in := range b.Instrs {
			if _, isPhi := in.(*ssa.Phi); isPhi {
				continue
			}
			if p := in.Pos(); p.IsValid() && (best == token.NoPos || p < best) {
				best = p
			}
		}
	}
	return best
}

type edgeState struct {
	from *ssa.BasicBlock
	st   *State
}

// mergeStates joins edge states into one; conds[i] is the guard of edge i.
func (c *FnCtx) mergeStates(sts []*State) *State {
	if len(sts) == 1 {
		return sts[0].clone()
	}
	var guards []string
	for _, s := range sts {
		guards = append(guards, s.guard)
	}
	g := c.defAlways("g", "Bool", or(guards...))
	out := &State{guard: g, heap: map[string]string{}}
	// epochs
	same := true
	for _, s := range sts[1:] {
		if s.ep != sts[0].ep {
			same = false
		}
	}
	keys := map[string]bool{}
	for _, s := range sts {
		for k := range s.heap {
			keys[k] = true
		}
	}
	if same {
		out.ep = sts[0].ep
	} else {
		ep := c.newEpoch()
		ep.parents = sts
		ep.conds = guards
		out.ep = ep
	}
	var ks []string
	for k := range keys {
		ks = append(ks, k)
	}
	sort.Strings(ks)
	for _, k := range ks {
		term := ""
		allSame := true
		var first string
		for i := len(sts) - 1; i >= 0; i-- {
			s := sts[i]
			v, ok := s.heap[k]
			if !ok {
				v = c.epochGet(s.ep, k)
			}
			if first == "" {
				first = v
			} else if v != first {
				allSame = false
			}
			if term == "" {
				term = v
			} else {
				term = ite(s.guard, v, term)
			}
		}
		if allSame {
			out.heap[k] = first
		} else {
			out.heap[k] = c.defAlways(k, c.heapSortOf(k), term)
		}
	}
	// watermark
	wm := ""
	for i := len(sts) - 1; i >= 0; i-- {
		if wm == "" {
			wm = sts[i].wm
		} else {
			wm = ite(sts[i].guard, sts[i].wm, wm)
		}
	}
	out.wm = c.def("wm", "Int", wm)
	return out
}

// run executes the body of fr.fn starting in state st0; it returns the
// merged return state and return values.
func (c *FnCtx) run(fr *frame, st0 *State) (*State, []Val) {
	c.prepare(fr)
	fn := fr.fn
	if len(fn.Blocks) == 0 {
		bail("function %s has no body", fn)
	}
	if fr.con != nil && c.bounded == 0 {
		have := map[int]bool{}
		for _, li := range fr.loops {
			have[li.ord] = true
		}
		for ord := range fr.con.Loops {
			if !have[ord] {
				bail("contract of %s names loop %d, the function has %d loops (numbered from 1)", fn, ord, len(fr.loops))
			}
		}
	}
	incoming := map[*ssa.BasicBlock][]edgeState{}
	incoming[fn.Blocks[0]] = []edgeState{{nil, st0}}
	route := func(from, to *ssa.BasicBlock, st *State) {
		incoming[to] = append(incoming[to], edgeState{from, st})
	}
	c.runOrder(fr, fr.order, incoming, route, nil, nil, map[*ssa.BasicBlock]bool{})
	if len(fr.retSts) == 0 {
		dead := st0.clone()
		dead.guard = "false"
		return dead, nil
	}
	rst := c.mergeStates(fr.retSts)
	var rv []Val
	if len(fr.retVals) > 0 {
		n := len(fr.retVals[0])
		for k := 0; k < n; k++ {
			var v Val
			for i := len(fr.retSts) - 1; i >= 0; i-- {
				if i == len(fr.retSts)-1 {
					v = fr.retVals[i][k]
				} else {
					v = c.iteVal(fr.retSts[i].guard, fr.retVals[i][k], v)
				}
			}
			rv = append(rv, v)
		}
	}
	return rst, rv
}

func phiName(p *ssa.Phi) string {
	if p.Comment != "" {
		return "phi_" + sanitize(p.Comment)
	}
	return "phi"
}

func sanitize(s string) string {
	var b strings.Builder
	for _, r := range s {
		if r >= 'a' && r <= 'z' || r >= 'A' && r <= 'Z' || r >= '0' && r <= '9' || r == '_' {
			b.WriteRune(r)
		} else {
			b.WriteByte('_')
		}
	}
	return b.String()
}

// nameVal gives the leaves of a value short names (keeps terms small).
func (c *FnCtx) nameVal(v Val, prefix string) Val {
	switch v.K {
	case kStruct, kTuple:
		r := v
		r.Fields = nil
		for _, f := range v.Fields {
			r.Fields = append(r.Fields, c.nameVal(f, prefix))
		}
		return r
	case kSlice:
		r := v
		r.Ref = c.def(prefix+"_ref", "Int", v.Ref)
		r.Off = c.def(prefix+"_off", "Int", v.Off)
		r.Len = c.def(prefix+"_len", "Int", v.Len)
		r.Cap = c.def(prefix+"_cap", "Int", v.Cap)
		return r
	case kPtr:
		r := v
		r.Ref = c.def(prefix+"_ref", "Int", v.Ref)
		r.Idx = c.def(prefix+"_idx", "Int", v.Idx)
		return r
	case kFunc:
		if v.Fn != nil {
			return v
		}
	}
	r := v
	sort := "Int"
	switch v.K {
	case kBool:
		sort = "Bool"
	case kStr:
		sort = "Str"
	case kArray:
		sort = sortOf(v.T)
	case kMath:
		sort = v.Sort
	}
	r.S = c.def(prefix, sort, v.S)
	return r
}

// checkAsserts fires the contract's assert_at clauses whose source-line
// marker matches the line of the instruction about to be executed.
func (c *FnCtx) checkAsserts(fr *frame, b *ssa.BasicBlock, st *State, in ssa.Instruction) {
	if fr.con == nil || len(fr.con.Asserts) == 0 || c.dry > 0 {
		return
	}
	if _, ok := in.(*ssa.DebugRef); ok {
		return
	}
	p := in.Pos()
	if !p.IsValid() {
		return
	}
	line := c.eng.fset.Position(p).Line
	if fr.lastLine == line {
		return
	}
	fr.lastLine = line
	text := c.srcLine(p)
	for _, a := range fr.con.Asserts {
		if !strings.Contains(text, a.Name) {
			continue
		}
		if c.matched == nil {
			c.matched = map[*Clause]bool{}
		}
		c.matched[a] = true
		if a.Kind == "mark" {
			// mark NAME "text": remember the state just before this line; at(NAME, e) reads it
			if c.marks == nil {
				c.marks = map[string]*State{}
			}
			c.marks[a.Text] = st.clone()
			continue
		}
		var pkg *types.Package
		if fr.fn.Pkg != nil {
			pkg = fr.fn.Pkg.Pkg
		}
		var li *loopInfo
		for _, l := range fr.loops {
			if l.blocks[b] && (li == nil || len(l.blocks) < len(li.blocks)) {
				li = l
			}
		}
		ec := &evalCtx{c: c, st: st, old: c.entry, pkg: pkg, preds: fr.con.Preds, bound: c.lets}
		base := c.resolver(fr, li, nil)
		ec.names = func(n string) (Val, bool) {
			if v, ok := c.debugAt(fr, b, in, n); ok {
				return v, true
			}
			return base(n)
		}
		ec.loopVar = func(n int, name string) (Val, bool) {
			for _, l := range fr.loops {
				if l.ord == n {
					return c.phiByName(fr, l, name)
				}
			}
			return Val{}, false
		}
		ec.entryName = func(name string) (Val, bool) {
			for _, p := range fr.fn.Params {
				if p.Name() == name {
					v, ok := fr.regs[p]
					return v, ok
				}
			}
			return Val{}, false
		}
		if li != nil && fr.loopEntrySt != nil {
			ec.loopEntry = fr.loopEntrySt[li]
		}
		t := ec.boolOf(a.Expr)
		c.canaryNext = a.Canary || a.NoAssume
		o := c.oblige(st, "assert", "assertion before the line containing "+a.Name, t, p, "assert_at "+a.Name+": "+a.Text)
		if o != nil {
			o.Canary = a.Canary // check_at: a real obligation that is merely not assumed afterwards
		}
	}
}

// addrTakenLocal: a local variable that lives in memory (its address is
// taken). Its value-typed debug references only show the initial value, so a
// contract name must denote the variable itself: for arrays and structs the
// pointer to it (fields and elements are then read in the state of the
// clause); other kinds are not resolvable (ok == false).
func (c *FnCtx) addrTakenLocal(fr *frame, name string) (v Val, isAddrTaken, ok bool) {
	for _, blk := range fr.fn.Blocks {
		for _, in := range blk.Instrs {
			d, isRef := in.(*ssa.DebugRef)
			if !isRef || !d.IsAddr {
				continue
			}
			id, isId := d.Expr.(*ast.Ident)
			if !isId || id.Name != name {
				continue
			}
			if _, isAlloc := d.X.(*ssa.Alloc); !isAlloc {
				continue
			}
			pt, isPtr := d.X.Type().Underlying().(*types.Pointer)
			if !isPtr {
				continue
			}
			switch pt.Elem().Underlying().(type) {
			case *types.Array, *types.Struct:
				if _, computed := fr.regs[d.X]; computed {
					return c.value(fr, d.X), true, true
				}
				return Val{}, true, false
			}
			return Val{}, true, false
		}
	}
	return Val{}, false, false
}

// debugAt: value of a source variable just before instruction `at` in block
// b, from the debug references of b (before `at`) and of dominating blocks.
func (c *FnCtx) debugAt(fr *frame, b *ssa.BasicBlock, at ssa.Instruction, name string) (Val, bool) {
	if v, isAddrTaken, ok := c.addrTakenLocal(fr, name); isAddrTaken {
		return v, ok
	}
	var best ssa.Value
	scan := func(blk *ssa.BasicBlock, stop ssa.Instruction) {
		for _, in := range blk.Instrs {
			if in == stop {
				return
			}
			if d, ok := in.(*ssa.DebugRef); ok && !d.IsAddr {
				if id, ok := d.Expr.(*ast.Ident); ok && id.Name == name {
					if _, computed := fr.regs[d.X]; computed {
						best = d.X
					} else if _, isConst := d.X.(*ssa.Const); isConst {
						best = d.X
					}
				}
			}
		}
	}
	// dominators from the entry down to b
	var chain []*ssa.BasicBlock
	for x := b; x != nil; x = x.Idom() {
		chain = append(chain, x)
	}
	for i := len(chain) - 1; i >= 1; i-- {
		scan(chain[i], nil)
	}
	scan(b, at)
	if best == nil {
		return Val{}, false
	}
	return c.value(fr, best), true
}

func (c *FnCtx) execBlock(fr *frame, b *ssa.BasicBlock, st *State, route router) {
	for _, in := range b.Instrs {
		c.checkAsserts(fr, b, st, in)
		if _, ok := in.(*ssa.Phi); ok {
			continue
		}
		switch t := in.(type) {
		case *ssa.If:
			cond := c.value(fr, t.Cond).S
			cond = c.def("c", "Bool", cond)
			s1 := st.clone()
			s1.guard = c.def("g", "Bool", and(st.guard, cond))
			s2 := st.clone()
			s2.guard = c.def("g", "Bool", and(st.guard, not(cond)))
			c.flow(fr, b, b.Succs[0], s1, route)
			c.flow(fr, b, b.Succs[1], s2, route)
			return
		case *ssa.Jump:
			c.flow(fr, b, b.Succs[0], st, route)
			return
		case *ssa.Return:
			var vals []Val
			for _, r := range t.Results {
				vals = append(vals, c.value(fr, r))
			}
			fr.retVals = append(fr.retVals, vals)
			fr.retSts = append(fr.retSts, st)
			return
		case *ssa.Panic:
			c.oblige(st, "panic", "explicit panic unreachable", "false", t.Pos(), "")
			return
		default:
			c.instr(fr, st, in)
			if st.guard == "false" {
				return
			}
		}
	}
}

func (c *FnCtx) flow(fr *frame, from, to *ssa.BasicBlock, st *State, route router) {
	if st.guard == "false" {
		return
	}
	if li := fr.loops[to]; li != nil && to.Dominates(from) && !fr.unrolling[li] {
		c.backEdge(fr, li, from, st)
		return
	}
	route(from, to, st)
}

func shortFunc(s string) string {
	return strings.ReplaceAll(s, "golang.org/x/crypto/", "")
}
