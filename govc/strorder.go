package main

// Lexical order of strings. Strings are an uninterpreted sort, so the order
// is an uninterpreted strict order strlt; each comparison adds the ground
// facts that relate it to equality and to its converse (irreflexive,
// asymmetric, total on distinct strings as far as equality of the Str terms
// goes). Nothing relates strlt to the characters: proofs can use the order
// the code itself establishes by comparing, not derive one.

import "go/token"

func (c *FnCtx) strOrder(op token.Token, a, b string) string {
	lt := sx("strlt", a, b)
	gt := sx("strlt", b, a)
	c.assumeRaw(not(and(lt, gt)))
	c.assumeRaw(implies(eq(a, b), and(not(lt), not(gt))))
	switch op {
	case token.LSS:
		return lt
	case token.GTR:
		return gt
	case token.LEQ:
		return not(gt)
	default: // GEQ
		return not(lt)
	}
}
