package main

// Ground checks of the spec functions against their standards' vectors:
// /verif/specs/tests/*.smt2, each starting with "; include <spec file>".
// Every (check-sat) in a test file must answer unsat.

import (
	"bytes"
	"context"
	"fmt"
	"os"
	"os/exec"
	"path/filepath"
	"sort"
	"strings"
	"time"
)

type specTestResult struct {
	File    string `json:"file"`
	Checks  int    `json:"checks"`
	Passed  int    `json:"passed"`
	Output  string `json:"output,omitempty"`
	Seconds float64 `json:"seconds"`
}

// runSpecTests runs the tests whose included spec file is in `only`
// (all tests when only is nil).
func runSpecTests(root string, only map[string]bool, workDir string) ([]specTestResult, bool) {
	files, _ := filepath.Glob(filepath.Join(root, "specs", "tests", "*.smt2"))
	sort.Strings(files)
	ok := true
	var out []specTestResult
	for _, f := range files {
		b, err := os.ReadFile(f)
		if err != nil {
			continue
		}
		txt := string(b)
		var incs []string
		for _, ln := range strings.Split(txt, "\n") {
			if strings.HasPrefix(ln, "; include ") {
				incs = append(incs, strings.TrimSpace(strings.TrimPrefix(ln, "; include ")))
			}
		}
		if only != nil {
			use := false
			for _, i := range incs {
				if only[filepath.Join(root, "specs", i)] {
					use = true
				}
			}
			if !use {
				continue
			}
		}
		var sb strings.Builder
		sb.WriteString(strings.Replace(preamble, "(set-option :produce-models true)\n", "", 1))
		sb.WriteString(pow2fDef())
		sb.WriteString(preamble2)
		for _, i := range incs {
			ib, err := os.ReadFile(filepath.Join(root, "specs", i))
			if err != nil {
				ok = false
				continue
			}
			sb.Write(ib)
			sb.WriteString("\n")
		}
		sb.WriteString(txt)
		os.MkdirAll(workDir, 0o755)
		p := filepath.Join(workDir, "spectest_"+filepath.Base(f))
		os.WriteFile(p, []byte(sb.String()), 0o644)
		t0 := time.Now()
		ctx, cancel := context.WithTimeout(context.Background(), 120*time.Second)
		cmd := exec.CommandContext(ctx, "z3-new", "-T:100", p)
		var ob bytes.Buffer
		cmd.Stdout = &ob
		cmd.Stderr = &ob
		cmd.Run()
		cancel()
		n := strings.Count(txt, "(check-sat)")
		pass := 0
		for _, ln := range strings.Split(ob.String(), "\n") {
			if strings.TrimSpace(ln) == "unsat" {
				pass++
			}
		}
		r := specTestResult{File: filepath.Base(f), Checks: n, Passed: pass, Seconds: time.Since(t0).Seconds()}
		if pass != n {
			ok = false
			o := ob.String()
			if len(o) > 1500 {
				o = o[:1500]
			}
			r.Output = o
		}
		out = append(out, r)
	}
	return out, ok
}

func specTestCmd(root string) int {
	res, ok := runSpecTests(root, nil, filepath.Join(root, ".work", "spectest"))
	for _, r := range res {
		fmt.Printf("%-30s %d/%d  %.1fs\n", r.File, r.Passed, r.Checks, r.Seconds)
		if r.Output != "" {
			fmt.Println(r.Output)
		}
	}
	if !ok {
		return 1
	}
	return 0
}
