package main

// Semantics of the individual SSA instructions (mode "ints").

import (
	"fmt"
	"go/constant"
	"go/token"
	"go/types"
	"math/big"

	"golang.org/x/tools/go/ssa"
)

func (c *FnCtx) value(fr *frame, v ssa.Value) Val {
	switch x := v.(type) {
	case *ssa.Const:
		return c.constVal(x)
	case *ssa.Global:
		return ptrVal(x.Type(), c.eng.globalRef(x), "0")
	case *ssa.Function:
		return Val{K: kFunc, T: x.Type(), Fn: x}
	case *ssa.Builtin:
		bail("builtin %s used as a value", x.Name())
	}
	r, ok := fr.regs[v]
	if !ok {
		bail("value %s (%T) not computed in %s", v.Name(), v, fr.fn)
	}
	return r
}

func (c *FnCtx) constVal(x *ssa.Const) Val {
	t := x.Type()
	if x.Value == nil {
		return c.zero(t)
	}
	switch kindOf(t) {
	case kInt:
		n, ok := new(big.Int).SetString(x.Value.ExactString(), 10)
		if !ok {
			if v, ok2 := constant.Int64Val(constant.ToInt(x.Value)); ok2 {
				n = big.NewInt(v)
			} else {
				bail("constant %s", x.Value)
			}
		}
		return intVal(t, bigNum(n))
	case kBool:
		if constant.BoolVal(x.Value) {
			return Val{K: kBool, T: t, S: "true"}
		}
		return Val{K: kBool, T: t, S: "false"}
	case kStr:
		return strVal(t, c.strLit(constant.StringVal(x.Value)))
	}
	bail("constant of type %s", t)
	return Val{}
}

func (c *FnCtx) coerce(v Val, t types.Type) Val {
	if v.K == kIface && kindOf(t) != kIface && v.S == "0" {
		return c.zero(t)
	}
	return v
}

func (c *FnCtx) alloc(st *State, t types.Type, heapAlloc bool) string {
	ref := c.def("ref", "Int", st.wm)
	if ref == st.wm && !isSimpleName(ref) {
		ref = c.defAlways("ref", "Int", st.wm)
	}
	st.wm = c.def("wm", "Int", add(ref, "1"))
	c.locals = append(c.locals, localAlloc{ref: ref, typ: t, escaped: heapAlloc})
	return ref
}

// atom names an integer term by a declared constant (not a macro), so that
// quantifier patterns such as (select row (+ off k)) match it syntactically.
func (c *FnCtx) atom(prefix, term string) string {
	if isSimpleName(term) {
		return term
	}
	if _, lit := isNumLit(term); lit {
		return term
	}
	if c.atoms == nil {
		c.atoms = map[string]string{}
	}
	if n, ok := c.atoms[term]; ok {
		return n
	}
	n := c.declare(prefix, "Int")
	c.assumeRaw(eq(n, term))
	c.atoms[term] = n
	if c.defs == nil {
		c.defs = map[string]string{}
	}
	c.defs[n] = term
	return n
}

// atomSort is atom for a term of any sort (array-valued ghost fields: the
// solver simplifies nested select/store terms differently inside and outside
// quantifiers, which defeats E-matching unless the term has a name).
func (c *FnCtx) atomSort(prefix, sort, term string) string {
	if isSimpleName(term) {
		return term
	}
	if c.atoms == nil {
		c.atoms = map[string]string{}
	}
	if n, ok := c.atoms[sort+"|"+term]; ok {
		return n
	}
	n := c.declare(prefix, sort)
	c.assumeRaw(eq(n, term))
	c.atoms[sort+"|"+term] = n
	return n
}

func isSimpleName(s string) bool {
	for _, r := range s {
		if r == '(' || r == ' ' {
			return false
		}
	}
	return true
}

// initObject writes the zero value of t into a fresh object.
func (c *FnCtx) initObject(st *State, ref string, t types.Type) {
	if at, ok := t.Underlying().(*types.Array); ok {
		if kindOf(at.Elem()) == kStruct {
			// the zero value of an array of structs is not written: its
			// contents stay arbitrary (an over-approximation; typical use is
			// the backing array of variadic arguments, filled before it is read)
			c.note("arrays of structs are allocated with arbitrary rather than zero contents")
			return
		}
		c.heapWriteRow(st, heapKey(at.Elem(), nil), sortOf(at.Elem()), ref, c.zeroArray(at.Elem()))
		return
	}
	p := Val{K: kPtr, T: types.NewPointer(t), Ref: ref, Idx: "0", Root: t}
	c.store(st, p, c.zero(t))
	for _, gi := range ghostInits[types.TypeString(t, nil)] {
		sort := ghostSorts[gi[0]]
		if sort == "" {
			sort = "Int"
		}
		c.heapWrite(st, "G_"+gi[0], sort, ref, "0", gi[1])
	}
}

func (c *FnCtx) nilCheck(st *State, p Val, pos token.Pos, what string) {
	if p.Ref == "0" {
		c.oblige(st, "nil", what+" of nil pointer", "false", pos, "")
		return
	}
	if len(p.Ref) > 7 && p.Ref[:7] == "(subref" {
		return
	}
	if len(p.Ref) > 4 && (p.Ref[:4] == "ref!" || p.Ref[:4] == "glob") {
		return
	}
	if c.nonNil[p.Ref] {
		return
	}
	if _, lit := isNumLit(p.Ref); lit {
		return
	}
	c.oblige(st, "nil", what+" of nil pointer", not(eq(p.Ref, "0")), pos, "")
}

func (c *FnCtx) instr(fr *frame, st *State, in ssa.Instruction) {
	switch t := in.(type) {
	case *ssa.DebugRef:
		return
	case *ssa.Alloc:
		et := t.Type().Underlying().(*types.Pointer).Elem()
		ref := c.alloc(st, et, t.Heap)
		c.initObject(st, ref, et)
		fr.regs[t] = ptrVal(t.Type(), ref, "0")
	case *ssa.BinOp:
		fr.regs[t] = c.binop(fr, st, t)
	case *ssa.UnOp:
		fr.regs[t] = c.unop(fr, st, t)
	case *ssa.Store:
		p := c.value(fr, t.Addr)
		c.nilCheck(st, p, t.Pos(), "store")
		v := c.coerce(c.value(fr, t.Val), t.Val.Type())
		if v.T == nil {
			v.T = t.Val.Type()
		}
		c.store(st, p, v)
	case *ssa.FieldAddr:
		p := c.value(fr, t.X)
		c.nilCheck(st, p, t.Pos(), "field access")
		fr.regs[t] = c.fieldAddr(p, t.Field, t.Type())
	case *ssa.Field:
		x := c.value(fr, t.X)
		fr.regs[t] = x.Fields[t.Field]
	case *ssa.IndexAddr:
		fr.regs[t] = c.indexAddr(fr, st, t)
	case *ssa.Index:
		x := c.value(fr, t.X)
		i := c.value(fr, t.Index)
		switch x.K {
		case kArray:
			at := x.T.Underlying().(*types.Array)
			c.oblige(st, "bounds", "array index in range", and(le("0", i.S), lt(i.S, num(at.Len()))), t.Pos(), "")
			v := fromTerm(at.Elem(), c.def("ix", sortOf(at.Elem()), sx("select", x.S, i.S)))
			fr.regs[t] = v
		case kStr:
			c.oblige(st, "bounds", "string index in range", and(le("0", i.S), lt(i.S, sx("slen", x.S))), t.Pos(), "")
			v := intVal(t.Type(), sx("sat", x.S, i.S))
			c.assume(st, and(sx("<=", "0", v.S), sx("<", v.S, "256")))
			fr.regs[t] = v
		default:
			bail("index of kind %d", x.K)
		}
	case *ssa.Lookup:
		x := c.value(fr, t.X)
		if x.K == kStr {
			i := c.value(fr, t.Index)
			c.oblige(st, "bounds", "string index in range", and(le("0", i.S), lt(i.S, sx("slen", x.S))), t.Pos(), "")
			v := intVal(t.Type(), c.def("sb", "Int", sx("sat", x.S, i.S)))
			c.assume(st, and(sx("<=", "0", v.S), sx("<", v.S, "256")))
			fr.regs[t] = v
			return
		}
		fr.regs[t] = c.mapLookup(fr, st, t)
	case *ssa.MapUpdate:
		c.mapUpdate(fr, st, t)
	case *ssa.MakeMap:
		fr.regs[t] = c.makeMap(st, t.Type())
	case *ssa.Slice:
		fr.regs[t] = c.sliceOp(fr, st, t)
	case *ssa.MakeSlice:
		ln := c.value(fr, t.Len)
		cp := c.value(fr, t.Cap)
		el := t.Type().Underlying().(*types.Slice).Elem()
		esz := c.eng.sizeof(el)
		if esz < 1 {
			esz = 1
		}
		c.oblige(st, "bounds", "make: 0 <= len <= cap <= maxAlloc/elemsize", and(le("0", ln.S), le(ln.S, cp.S), le(mul(cp.S, num(esz)), "281474976710656")), t.Pos(), "")
		ref := c.alloc(st, types.NewArray(el, 0), true)
		if kindOf(el) == kStruct {
			var lk []leafKey
			leafKeysOf(el, nil, el, &lk)
			for _, k := range lk {
				if k.array {
					bail("make of slice of structs with array fields")
				}
				z := c.zero(k.typ)
				c.heapWriteRow(st, k.key, sortOf(k.typ), ref, sx("(as const (Array Int "+sortOf(k.typ)+"))", toTerm(z)))
			}
		} else if kindOf(el) == kArray {
			bail("make of slice of arrays")
		} else {
			c.heapWriteRow(st, heapKey(el, nil), sortOf(el), ref, c.zeroArray(el))
		}
		fr.regs[t] = Val{K: kSlice, T: t.Type(), Root: el, Ref: ref, Off: "0", Len: ln.S, Cap: cp.S}
	case *ssa.SliceToArrayPointer:
		x := c.value(fr, t.X)
		at := t.Type().Underlying().(*types.Pointer).Elem().Underlying().(*types.Array)
		c.oblige(st, "bounds", "slice to array pointer: length", sx(">=", x.Len, num(at.Len())), t.Pos(), "")
		fr.regs[t] = Val{K: kPtr, T: t.Type(), Ref: x.Ref, Idx: x.Off, Root: at.Elem()}
	case *ssa.Convert:
		fr.regs[t] = c.convert(fr, st, t)
	case *ssa.ChangeType:
		v := c.value(fr, t.X)
		v.T = t.Type()
		if v.K == kStruct || v.K == kArray || v.K == kSlice || v.K == kPtr {
			v = retype(v, t.Type())
		}
		fr.regs[t] = v
	case *ssa.ChangeInterface:
		v := c.value(fr, t.X)
		v.T = t.Type()
		fr.regs[t] = v
	case *ssa.MakeInterface:
		fr.regs[t] = c.makeInterface(fr, st, t)
	case *ssa.TypeAssert:
		fr.regs[t] = c.typeAssert(fr, st, t)
	case *ssa.Extract:
		tup := c.value(fr, t.Tuple)
		fr.regs[t] = tup.Fields[t.Index]
	case *ssa.MakeClosure:
		v := Val{K: kFunc, T: t.Type(), Fn: t.Fn.(*ssa.Function)}
		for _, b := range t.Bindings {
			v.Bind = append(v.Bind, c.value(fr, b))
		}
		fr.regs[t] = v
	case *ssa.Call:
		r := c.call(fr, st, t.Common(), t.Pos(), t)
		if r != nil {
			fr.regs[t] = *r
		}
	case *ssa.Defer:
		for _, b := range in.Block().Parent().Blocks {
			_ = b
		}
		fr.defers = append(fr.defers, t)
		fr.deferArgs = append(fr.deferArgs, c.snapshotCallArgs(fr, t.Common()))
	case *ssa.RunDefers:
		c.runDefers(fr, st)
	case *ssa.Go:
		c.note("%s: goroutine started at %s is not followed", shortFunc(fr.fn.String()), c.posString(t.Pos()))
		c.havocAll(st, "go statement")
	case *ssa.Send:
		c.note("%s: channel send at %s treated as skip (blocking not modelled)", shortFunc(fr.fn.String()), c.posString(t.Pos()))
	case *ssa.MakeChan:
		ref := c.alloc(st, types.NewArray(types.Typ[types.Int], 0), true)
		fr.regs[t] = Val{K: kOpaque, T: t.Type(), S: ref}
	case *ssa.Range:
		fr.regs[t] = c.rangeInit(fr, st, t)
	case *ssa.Next:
		fr.regs[t] = c.rangeNext(fr, st, t)
	case *ssa.Select:
		// any ready case may be chosen (default: -1 when non-blocking);
		// received values are arbitrary, sends are skips
		tt := t.Type().(*types.Tuple)
		idx := c.declare("selidx", "Int")
		lo := "0"
		if !t.Blocking {
			lo = "-1"
		}
		c.assume(st, and(sx("<=", lo, idx), sx("<", idx, num(int64(len(t.States))))))
		fields := []Val{intVal(tt.At(0).Type(), idx), boolVal(c.declare("selok", "Bool"))}
		for i := 2; i < tt.Len(); i++ {
			fields = append(fields, c.freshVal(st, tt.At(i).Type(), "selrecv"))
		}
		fr.regs[t] = Val{K: kTuple, T: tt, Fields: fields}
		c.note("%s: select at %s: any case may be taken; received values arbitrary (blocking not modelled)", shortFunc(fr.fn.String()), c.posString(t.Pos()))
	case *ssa.MultiConvert:
		bail("generic conversion")
	default:
		bail("unsupported instruction %T", in)
	}
}

func retype(v Val, t types.Type) Val {
	v.T = t
	return v
}

func (c *FnCtx) indexAddr(fr *frame, st *State, t *ssa.IndexAddr) Val {
	x := c.value(fr, t.X)
	i := c.value(fr, t.Index)
	switch x.K {
	case kSlice:
		c.oblige(st, "bounds", "index in range", and(le("0", i.S), lt(i.S, x.Len)), t.Pos(), "")
		el := x.T.Underlying().(*types.Slice).Elem()
		if at, ok := el.Underlying().(*types.Array); ok {
			// slice of arrays: flattened, stride = array length
			return Val{K: kPtr, T: t.Type(), Ref: x.Ref, Idx: mul(add(x.Off, i.S), num(at.Len())), Root: at.Elem()}
		}
		return Val{K: kPtr, T: t.Type(), Ref: x.Ref, Idx: add(x.Off, c.atom("i", i.S)), Root: el}
	case kPtr:
		c.nilCheck(st, x, t.Pos(), "index")
		at := pointee(x).Underlying().(*types.Array)
		c.oblige(st, "bounds", "index in range", and(le("0", i.S), lt(i.S, num(at.Len()))), t.Pos(), "")
		if inner, ok := at.Elem().Underlying().(*types.Array); ok {
			return Val{K: kPtr, T: t.Type(), Ref: x.Ref, Idx: add(x.Idx, mul(i.S, num(inner.Len()))), Root: inner.Elem()}
		}
		return Val{K: kPtr, T: t.Type(), Ref: x.Ref, Idx: add(x.Idx, i.S), Root: at.Elem(), Path: nil}
	}
	bail("indexaddr of kind %d", x.K)
	return Val{}
}

func (c *FnCtx) sliceOp(fr *frame, st *State, t *ssa.Slice) Val {
	x := c.value(fr, t.X)
	var lo, hi, mx string
	if t.Low != nil {
		lo = c.value(fr, t.Low).S
	} else {
		lo = "0"
	}
	switch x.K {
	case kStr:
		if t.High != nil {
			hi = c.value(fr, t.High).S
		} else {
			hi = sx("slen", x.S)
		}
		c.oblige(st, "bounds", "string slice bounds", and(le("0", lo), le(lo, hi), le(hi, sx("slen", x.S))), t.Pos(), "")
		return strVal(t.Type(), c.substr(x.S, lo, hi))
	case kSlice:
		if t.High != nil {
			hi = c.value(fr, t.High).S
		} else {
			hi = x.Len
		}
		if t.Max != nil {
			mx = c.value(fr, t.Max).S
			c.oblige(st, "bounds", "slice bounds", and(le("0", lo), le(lo, hi), le(hi, mx), le(mx, x.Cap)), t.Pos(), "")
		} else {
			mx = x.Cap
			c.oblige(st, "bounds", "slice bounds", and(le("0", lo), le(lo, hi), le(hi, x.Cap)), t.Pos(), "")
		}
		r := Val{K: kSlice, T: t.Type(), Root: x.Root, Ref: x.Ref, Off: c.atom("off", add(x.Off, lo)), Len: sub(hi, lo), Cap: sub(mx, lo)}
		return c.nameVal(r, "sl")
	case kPtr:
		c.nilCheck(st, x, t.Pos(), "slice")
		at := pointee(x).Underlying().(*types.Array)
		n := num(at.Len())
		if t.High != nil {
			hi = c.value(fr, t.High).S
		} else {
			hi = n
		}
		if t.Max != nil {
			mx = c.value(fr, t.Max).S
		} else {
			mx = n
		}
		c.oblige(st, "bounds", "slice bounds", and(le("0", lo), le(lo, hi), le(hi, mx), le(mx, n)), t.Pos(), "")
		r := Val{K: kSlice, T: t.Type(), Root: at.Elem(), Ref: x.Ref, Off: add(x.Idx, lo), Len: sub(hi, lo), Cap: sub(mx, lo)}
		return c.nameVal(r, "sl")
	}
	bail("slice of kind %d", x.K)
	return Val{}
}

func (c *FnCtx) substr(s, lo, hi string) string {
	if lo == "0" && hi == sx("slen", s) {
		return s
	}
	n := c.declare("sub", "Str")
	c.assumeRaw(eq(sx("slen", n), sub(hi, lo)))
	c.assumeRaw(fmt.Sprintf("(forall ((i Int)) (! (=> (and (<= 0 i) (< i %s)) (= (sat %s i) (sat %s (+ %s i)))) :pattern ((sat %s i))))", sub(hi, lo), n, s, lo, n))
	c.assumeRaw(eq(n, sx("ssub", s, lo, hi)))
	return n
}

func cmpFold(op token.Token, a, b string) (string, bool) {
	x, okx := isNumLit(a)
	y, oky := isNumLit(b)
	if !okx || !oky {
		return "", false
	}
	r := x.Cmp(y)
	var v bool
	switch op {
	case token.LSS:
		v = r < 0
	case token.LEQ:
		v = r <= 0
	case token.GTR:
		v = r > 0
	case token.GEQ:
		v = r >= 0
	case token.EQL:
		v = r == 0
	case token.NEQ:
		v = r != 0
	}
	if v {
		return "true", true
	}
	return "false", true
}

func (c *FnCtx) binop(fr *frame, st *State, t *ssa.BinOp) Val {
	x := c.value(fr, t.X)
	y := c.value(fr, t.Y)
	x = c.coerce(x, t.X.Type())
	y = c.coerce(y, t.Y.Type())
	switch t.Op {
	case token.EQL, token.NEQ:
		e := c.equal(st, x, y)
		if t.Op == token.NEQ {
			e = not(e)
		}
		return boolVal(e)
	case token.LSS, token.LEQ, token.GTR, token.GEQ:
		if x.K == kStr {
			// lexical order of strings: an uninterpreted strict order strlt,
			// with the ground facts a proof about one comparison can need
			return boolVal(c.strOrder(t.Op, x.S, y.S))
		}
		if x.K != kInt {
			bail("ordered comparison of kind %d", x.K)
		}
		if f, ok := cmpFold(t.Op, x.S, y.S); ok {
			return boolVal(f)
		}
		op := map[token.Token]string{token.LSS: "<", token.LEQ: "<=", token.GTR: ">", token.GEQ: ">="}[t.Op]
		return boolVal(sx(op, x.S, y.S))
	}
	if x.K == kStr && t.Op == token.ADD {
		return strVal(t.Type(), c.concat(x.S, y.S))
	}
	if x.K == kBool {
		switch t.Op {
		case token.AND, token.LAND:
			return boolVal(and(x.S, y.S))
		case token.OR, token.LOR:
			return boolVal(or(x.S, y.S))
		case token.XOR:
			return boolVal(not(eq(x.S, y.S)))
		}
	}
	if x.K != kInt {
		bail("binop %s on kind %d (%s)", t.Op, x.K, t.X.Type())
	}
	return intVal(t.Type(), c.intBinop(st, t.Op, x.S, y.S, t.Type(), t.X, t.Y, t.Pos()))
}

func (c *FnCtx) concat(a, b string) string {
	n := c.declare("cat", "Str")
	c.assumeRaw(eq(sx("slen", n), add(sx("slen", a), sx("slen", b))))
	c.assumeRaw(fmt.Sprintf("(forall ((i Int)) (! (=> (and (<= 0 i) (< i (slen %s))) (= (sat %s i) (sat %s i))) :pattern ((sat %s i))))", a, n, a, n))
	c.assumeRaw(fmt.Sprintf("(forall ((i Int)) (! (=> (and (<= 0 i) (< i (slen %s))) (= (sat %s (+ (slen %s) i)) (sat %s i))) :pattern ((sat %s i))))", b, n, a, b, b))
	c.assumeRaw(eq(n, sx("scat", a, b)))
	return n
}

func (c *FnCtx) equal(st *State, x, y Val) string {
	switch x.K {
	case kInt, kBool, kStr, kOpaque, kMap:
		if f, ok := cmpFold(token.EQL, x.S, y.S); ok {
			return f
		}
		if x.K == kStr {
			// string(bytes) compared with a literal: spelled out byte by byte
			for _, pr := range [][2]string{{x.S, y.S}, {y.S, x.S}} {
				src, ok1 := c.strSrc[pr[0]]
				txt, ok2 := c.litText[pr[1]]
				if ok1 && ok2 && len(txt) <= 64 {
					cs := []string{eq(src[2], num(int64(len(txt))))}
					for i := 0; i < len(txt); i++ {
						cs = append(cs, eq(sx("select", src[0], add(src[1], num(int64(i)))), num(int64(txt[i]))))
					}
					return and(cs...)
				}
			}
		}
		return eq(x.S, y.S)
	case kIface:
		if y.K != kIface {
			bail("comparison of interface with non-interface")
		}
		return eq(x.S, y.S)
	case kPtr:
		if y.K == kIface && y.S == "0" {
			return eq(x.Ref, "0")
		}
		if !samePath(x, y) {
			bail("comparison of pointers with different static shapes")
		}
		return and(eq(x.Ref, y.Ref), eq(x.Idx, y.Idx))
	case kSlice:
		// only comparison with nil is legal
		if x.Ref == "0" {
			return eq(y.Ref, "0")
		}
		return eq(x.Ref, "0")
	case kFunc:
		if x.Fn != nil {
			return "false"
		}
		if y.Fn != nil {
			return "false"
		}
		if y.S == "0" || x.S == "0" {
			return eq(x.S, y.S)
		}
		bail("comparison of func values")
	case kStruct:
		var cs []string
		for i := range x.Fields {
			cs = append(cs, c.equal(st, x.Fields[i], y.Fields[i]))
		}
		return and(cs...)
	case kArray:
		return eq(x.S, y.S) // extensional array equality (whole index space; sound for proving, may be incomplete)
	}
	bail("equality on kind %d", x.K)
	return ""
}

// bit-support analysis: value < 2^hi and divisible by 2^lo
func bitSupport(v ssa.Value, depth int) (lo, hi uint) {
	ii, ok := intInfoOf(v.Type())
	if !ok || ii.signed {
		if ok {
			// a narrower unsigned value converted to a signed type keeps its support
			if cv, isC := v.(*ssa.Convert); isC && depth <= 6 {
				if si, ok2 := intInfoOf(cv.X.Type()); ok2 && !si.signed && si.bits > 0 && si.bits < ii.bits {
					return bitSupport(cv.X, depth+1)
				}
			}
			return 0, 64
		}
		return 0, 64
	}
	lo, hi = 0, ii.bits
	if depth > 6 {
		return
	}
	switch x := v.(type) {
	case *ssa.Const:
		if x.Value != nil {
			n, ok := new(big.Int).SetString(x.Value.ExactString(), 10)
			if ok && n.Sign() >= 0 {
				if n.Sign() == 0 {
					return 0, 0
				}
				return n.TrailingZeroBits(), uint(n.BitLen())
			}
		}
	case *ssa.Convert:
		if si, ok := intInfoOf(x.X.Type()); ok && !si.signed {
			l, h := bitSupport(x.X, depth+1)
			if h > ii.bits {
				h = ii.bits
			}
			return l, h
		}
	case *ssa.BinOp:
		switch x.Op {
		case token.SHL:
			if k, ok := x.Y.(*ssa.Const); ok && k.Value != nil {
				s, _ := constant.Uint64Val(k.Value)
				l, h := bitSupport(x.X, depth+1)
				l += uint(s)
				h += uint(s)
				if h > ii.bits {
					h = ii.bits
				}
				if l > h {
					l = h
				}
				return l, h
			}
		case token.SHR:
			if k, ok := x.Y.(*ssa.Const); ok && k.Value != nil {
				s, _ := constant.Uint64Val(k.Value)
				_, h := bitSupport(x.X, depth+1)
				if uint(s) >= h {
					return 0, 0
				}
				return 0, h - uint(s)
			}
		case token.OR, token.XOR:
			l1, h1 := bitSupport(x.X, depth+1)
			l2, h2 := bitSupport(x.Y, depth+1)
			if h1 == 0 {
				return l2, h2
			}
			if h2 == 0 {
				return l1, h1
			}
			return minU(l1, l2), maxU(h1, h2)
		case token.AND:
			l1, h1 := bitSupport(x.X, depth+1)
			l2, h2 := bitSupport(x.Y, depth+1)
			return maxU(l1, l2), minU(h1, h2)
		}
	}
	return
}

func minU(a, b uint) uint {
	if a < b {
		return a
	}
	return b
}
func maxU(a, b uint) uint {
	if a > b {
		return a
	}
	return b
}

// maskTerm computes x & C for a non-negative constant C arithmetically.
func maskTerm(x string, cst *big.Int) string {
	if cst.Sign() == 0 {
		return "0"
	}
	var parts []string
	n := cst.BitLen()
	i := 0
	for i < n {
		if cst.Bit(i) == 0 {
			i++
			continue
		}
		j := i
		for j < n && cst.Bit(j) == 1 {
			j++
		}
		// run [i,j)
		t := x
		if i > 0 {
			t = sx("div", x, pow2s(uint(i)))
		}
		t = sx("mod", t, pow2s(uint(j-i)))
		if i > 0 {
			t = sx("*", t, pow2s(uint(i)))
		}
		parts = append(parts, t)
		i = j
	}
	if len(parts) == 1 {
		return parts[0]
	}
	return sx("+", parts...)
}

// orConst / xorConst: x|k and x^k for non-negative x and constant k >= 0.
func orConst(x string, k *big.Int) string  { return sub(add(x, bigNum(k)), maskTerm(x, k)) }
func xorConst(x string, k *big.Int) string { return sub(add(x, bigNum(k)), mul("2", maskTerm(x, k))) }

func (c *FnCtx) intBinop(st *State, op token.Token, x, y string, rt types.Type, xv, yv ssa.Value, pos token.Pos) string {
	ii, _ := intInfoOf(rt)
	math64 := ii.signed && ii.bits == 64
	xl, xlit := isNumLit(x)
	yl, ylit := isNumLit(y)
	finish := func(raw string) string {
		if xlit && ylit {
			return ii.wrap(raw)
		}
		if math64 {
			r := c.def("a", "Int", raw)
			c.oblige(st, "overflow", "signed 64-bit arithmetic does not overflow", ii.inRange(r), pos, "")
			return r
		}
		return c.def("a", "Int", ii.wrap(raw))
	}
	switch op {
	case token.ADD:
		return finish(add(x, y))
	case token.SUB:
		r := finish(sub(x, y))
		if y == "1" {
			if c.decOf == nil {
				c.decOf = map[string]string{}
			}
			c.decOf[r] = x
		}
		return r
	case token.MUL:
		return finish(mul(x, y))
	case token.QUO, token.REM:
		c.oblige(st, "div", "division by zero", not(eq(y, "0")), pos, "")
		var r string
		if ii.signed {
			if op == token.QUO {
				r = sx("tdiv", x, y)
			} else {
				r = sx("tmod", x, y)
			}
			if ii.bits > 0 && op == token.QUO {
				r = ii.wrap(r) // MinInt / -1
			}
		} else {
			if op == token.QUO {
				r = sx("div", x, y)
			} else {
				r = sx("mod", x, y)
			}
		}
		return c.def("a", "Int", r)
	case token.AND:
		if ylit && yl.Sign() >= 0 && !(ii.signed) {
			return c.def("a", "Int", maskTerm(x, yl))
		}
		if xlit && xl.Sign() >= 0 && !(ii.signed) {
			return c.def("a", "Int", maskTerm(y, xl))
		}
		if ylit && yl.Sign() >= 0 && ii.signed {
			// x & C for signed x: use the two's complement image
			return c.def("a", "Int", maskTerm(sx("mod", x, pow2s(ii.bits)), yl))
		}
		r := c.def("a", "Int", sx("band", x, y))
		if !ii.signed {
			c.assume(st, and(sx("<=", "0", r), sx("<=", r, x), sx("<=", r, y)))
		} else {
			c.assume(st, ii.inRange(r))
			c.assume(st, implies(and(sx(">=", x, "0"), sx(">=", y, "0")), and(sx("<=", "0", r), sx("<=", r, x), sx("<=", r, y))))
		}
		// x & (z-1): power-of-two facts
		for _, pr := range [][2]string{{x, y}, {y, x}} {
			if z, ok := c.decOf[pr[1]]; ok {
				if pr[0] == z {
					// z & (z-1) == 0  <=>  z is a power of two (z > 0)
					c.assume(st, implies(sx(">", z, "0"), eq(eq(r, "0"), sx("ispow2", z))))
				} else {
					c.assume(st, implies(and(sx("ispow2", z), sx(">=", pr[0], "0")), eq(r, sx("mod", pr[0], z))))
				}
			}
		}
		return r
	case token.OR, token.XOR:
		if xv != nil && yv != nil {
			l1, h1 := bitSupport(xv, 0)
			l2, h2 := bitSupport(yv, 0)
			// signed operands: only when both supports stay below the sign bit
			// (both values are then non-negative and so is their sum)
			if (!ii.signed || (h1 < 63 && h2 < 63 && (ii.bits == 0 || (h1 < ii.bits-1 && h2 < ii.bits-1)))) && (h1 <= l2 || h2 <= l1 || h1 == 0 || h2 == 0) {
				return c.def("a", "Int", add(x, y))
			}
		}
		if !ii.signed && (ylit || xlit) {
			v, k := x, yl
			if xlit {
				v, k = y, xl
			}
			if k.Sign() >= 0 {
				if op == token.OR {
					return c.def("a", "Int", orConst(v, k))
				}
				return c.def("a", "Int", xorConst(v, k))
			}
		}
		fn := "bor"
		if op == token.XOR {
			fn = "bxor"
		}
		r := c.def("a", "Int", sx(fn, x, y))
		if !ii.signed {
			if op == token.OR {
				c.assume(st, and(sx("<=", x, r), sx("<=", y, r), sx("<=", r, add(x, y)), sx("<=", r, bigNum(ii.max()))))
			} else {
				c.assume(st, and(sx("<=", "0", r), sx("<=", r, add(x, y)), sx("<=", r, bigNum(ii.max()))))
			}
		} else {
			c.assume(st, ii.inRange(r))
			if op == token.OR {
				c.assume(st, implies(and(sx("<=", "0", x), sx("<=", "0", y)), and(sx("<=", x, r), sx("<=", y, r), sx("<=", r, add(x, y)))))
			} else {
				c.assume(st, implies(and(sx("<=", "0", x), sx("<=", "0", y)), and(sx("<=", "0", r), sx("<=", r, add(x, y)))))
			}
		}
		// one operand statically below 2^h: if the other is a multiple of
		// 2^h the supports are disjoint and or/xor is addition
		if xv != nil && yv != nil {
			for _, pr := range [][3]interface{}{{yv, x, y}, {xv, y, x}} {
				_, h := bitSupport(pr[0].(ssa.Value), 0)
				big, small := pr[1].(string), pr[2].(string)
				if h > 0 && h < 64 && (ii.bits == 0 || h < ii.bits) {
					if si, ok := intInfoOf(pr[0].(ssa.Value).Type()); ok && !si.signed || h < 64 {
						c.assume(st, implies(and(eq(sx("mod", big, pow2s(h)), "0"), sx("<=", "0", small), sx("<", small, pow2s(h))), eq(r, add(big, small))))
					}
				}
			}
		}
		return r
	case token.AND_NOT:
		if ylit && yl.Sign() >= 0 && !ii.signed {
			return c.def("a", "Int", sub(x, maskTerm(x, yl)))
		}
		if ylit && yl.Sign() >= 0 && ii.signed && ii.bits > 0 {
			// two's complement: clearing bits of C subtracts (x & C)
			return c.def("a", "Int", sub(x, maskTerm(sx("mod", x, pow2s(ii.bits)), yl)))
		}
		r := c.def("a", "Int", sub(x, sx("band", x, y)))
		c.assume(st, ii.inRange(r))
		if !ii.signed {
			c.assume(st, sx("<=", sx("band", x, y), x))
			c.assume(st, sx("<=", "0", sx("band", x, y)))
		}
		return r
	case token.SHL:
		// shift count is unsigned or checked non-negative
		if yi, ok := intInfoOf(yv.Type()); ok && yi.signed && !ylit {
			c.oblige(st, "bounds", "shift count non-negative", sx(">=", y, "0"), pos, "")
		}
		if ylit {
			if yl.Cmp(big.NewInt(int64(ii.bits))) >= 0 && ii.bits > 0 {
				return "0"
			}
			raw := mul(x, pow2s(uint(yl.Int64())))
			if xlit {
				return ii.wrap(raw)
			}
			return c.def("a", "Int", ii.wrap(raw))
		}
		return c.def("a", "Int", ii.wrap(sx("*", x, sx("pow2f", y))))
	case token.SHR:
		if yi, ok := intInfoOf(yv.Type()); ok && yi.signed && !ylit {
			c.oblige(st, "bounds", "shift count non-negative", sx(">=", y, "0"), pos, "")
		}
		if ylit {
			if yl.Cmp(big.NewInt(int64(ii.bits))) >= 0 && ii.bits > 0 {
				if ii.signed {
					return c.def("a", "Int", ite(sx("<", x, "0"), "(- 1)", "0"))
				}
				return "0"
			}
			if xlit {
				return bigNum(new(big.Int).Rsh(xl, uint(yl.Int64())))
			}
			return c.def("a", "Int", sx("div", x, pow2s(uint(yl.Int64()))))
		}
		return c.def("a", "Int", ite(sx(">=", y, num(int64(ii.bits))), ite(sx("<", x, "0"), "(- 1)", "0"), sx("div", x, sx("pow2f", y))))
	}
	bail("integer operator %s", op)
	return ""
}

func (c *FnCtx) unop(fr *frame, st *State, t *ssa.UnOp) Val {
	x := c.value(fr, t.X)
	switch t.Op {
	case token.MUL:
		c.nilCheck(st, x, t.Pos(), "load")
		return c.load(st, x, t.Type())
	case token.NOT:
		return boolVal(not(x.S))
	case token.SUB:
		ii, _ := intInfoOf(t.Type())
		if ii.signed && ii.bits == 64 {
			r := c.def("a", "Int", sub("0", x.S))
			c.oblige(st, "overflow", "signed negation does not overflow", ii.inRange(r), t.Pos(), "")
			return intVal(t.Type(), r)
		}
		return intVal(t.Type(), c.def("a", "Int", ii.wrap(sub("0", x.S))))
	case token.XOR:
		ii, _ := intInfoOf(t.Type())
		if ii.signed {
			return intVal(t.Type(), c.def("a", "Int", sub(sub("0", x.S), "1")))
		}
		return intVal(t.Type(), c.def("a", "Int", sub(bigNum(ii.max()), x.S)))
	case token.ARROW:
		c.note("%s: channel receive at %s yields an arbitrary value", shortFunc(fr.fn.String()), c.posString(t.Pos()))
		return c.freshVal(st, t.Type(), "recv")
	}
	bail("unary operator %s", t.Op)
	return Val{}
}

func (c *FnCtx) convert(fr *frame, st *State, t *ssa.Convert) Val {
	x := c.value(fr, t.X)
	from, to := t.X.Type(), t.Type()
	fk, tk := kindOf(from), kindOf(to)
	switch {
	case fk == kInt && tk == kInt:
		fi, _ := intInfoOf(from)
		ti, _ := intInfoOf(to)
		if fi.bits != 0 && (ti.bits == 0 || (fi.min().Cmp(ti.min()) >= 0 && fi.max().Cmp(ti.max()) <= 0)) {
			return intVal(to, x.S)
		}
		return intVal(to, c.def("cv", "Int", ti.wrap(x.S)))
	case fk == kStr && tk == kSlice:
		// []byte(s): fresh object holding the bytes of s
		el := to.Underlying().(*types.Slice).Elem()
		ref := c.alloc(st, types.NewArray(el, 0), true)
		// the object's cells are exactly the string's bytes (cells past the
		// length are never reachable through the slice)
		c.heapWriteRow(st, heapKey(el, nil), "Int", ref, sx("strrow", x.S))
		return Val{K: kSlice, T: to, Root: el, Ref: ref, Off: "0", Len: sx("slen", x.S), Cap: sx("slen", x.S)}
	case fk == kSlice && tk == kStr:
		el := from.Underlying().(*types.Slice).Elem()
		h := c.heapGet(st, heapKey(el, nil), "Int")
		n := c.declare("s", "Str")
		c.assumeRaw(eq(sx("slen", n), x.Len))
		rowt := c.defAlways("row", "(Array Int Int)", sx("select", h, x.Ref))
		if ln, lit := isNumLit(x.Len); lit && ln.IsInt64() && ln.Int64() <= 32 {
			// short constant length: ground facts instead of a quantifier
			for i := int64(0); i < ln.Int64(); i++ {
				c.assumeRaw(eq(sx("sat", n, num(i)), sx("select", rowt, add(x.Off, num(i)))))
			}
		} else {
			c.assumeRaw(fmt.Sprintf("(forall ((i Int)) (! (=> (and (<= 0 i) (< i %s)) (= (sat %s i) (select %s (+ %s i)))) :pattern ((sat %s i))))", x.Len, n, rowt, x.Off, n))
		}
		if c.strSrc == nil {
			c.strSrc = map[string][3]string{}
		}
		c.strSrc[n] = [3]string{rowt, x.Off, x.Len}
		return strVal(to, n)
	case fk == kStr && tk == kStr:
		return strVal(to, x.S)
	case fk == kPtr && tk == kOpaque:
		// unsafe.Pointer(p): keep the pointer
		r := x
		r.K = kOpaque
		r.T = to
		r.S = "ptr"
		return r
	case fk == kOpaque && tk == kInt:
		// uintptr(unsafe.Pointer(p)) = address of the cell
		if x.S == "ptr" {
			sz := c.eng.sizeof(x.Root)
			a := add(sx("objbase", x.Ref), mul(x.Idx, num(sz)))
			c.eng.usesAddr = true
			return intVal(to, c.def("addr", "Int", a))
		}
	case fk == kOpaque && tk == kPtr:
		if x.S == "ptr" {
			bail("unsafe.Pointer converted back to a typed pointer")
		}
	case fk == kOpaque && tk == kOpaque:
		x.T = to
		return x
	}
	bail("conversion %s -> %s", from, to)
	return Val{}
}
