package main

// Function-level verification: set-up of the entry state, contract
// application at call sites, name resolution for contract expressions.

import (
	"fmt"
	"go/ast"
	"go/token"
	"go/types"
	"sort"
	"strings"

	"golang.org/x/tools/go/ssa"
)

type SpecFn struct {
	Name   string
	Params []string
	Result string
	File   string
}

type intrinsic func(c *FnCtx, fr *frame, st *State, ca callArgs, pos token.Pos, rt types.Type) *Val

var intrinsics = map[string]intrinsic{}

// paramNames returns the names a contract may use for receiver+parameters
// and for results.
func sigNames(sig *types.Signature, fn *ssa.Function, invoke bool) (params []string, results []string) {
	if fn != nil && len(fn.Params) > 0 || (fn != nil && sig.Recv() == nil) {
		for _, p := range fn.Params {
			params = append(params, p.Name())
		}
	} else {
		if invoke || sig.Recv() != nil {
			params = append(params, "recv")
		}
		for i := 0; i < sig.Params().Len(); i++ {
			n := sig.Params().At(i).Name()
			if n == "" || n == "_" {
				n = fmt.Sprintf("arg%d", i)
			}
			params = append(params, n)
		}
	}
	for i := 0; i < sig.Results().Len(); i++ {
		n := sig.Results().At(i).Name()
		if n == "" || n == "_" {
			n = fmt.Sprintf("result%d", i)
		}
		results = append(results, n)
	}
	return
}

// applyContract uses a callee's contract at a call site.
func (c *FnCtx) applyContract(fr *frame, st *State, con *Contract, ca callArgs, pos token.Pos, rt types.Type, key string) *Val {
	var callee *ssa.Function
	if ca.fn != nil {
		callee = ca.fn
	} else if ca.closure != nil {
		callee = ca.closure.Fn
	}
	pn, rn := sigNames(ca.sig, callee, ca.invoke != nil)
	var actuals []Val
	if ca.invoke != nil {
		actuals = append(actuals, *ca.recv)
	}
	actuals = append(actuals, ca.args...)
	if len(actuals) != len(pn) {
		bail("contract %s: %d actuals for %d parameter names", key, len(actuals), len(pn))
	}
	env := map[string]Val{}
	for i, n := range pn {
		env[n] = actuals[i]
	}
	if len(pn) > 0 {
		env["recv"] = actuals[0]
	}
	pre := st.clone()
	var pkg *types.Package
	if callee != nil && callee.Pkg != nil {
		pkg = callee.Pkg.Pkg
	} else if ca.invoke != nil {
		pkg = ca.invoke.Pkg()
	}
	mk := func(cur, old *State) *evalCtx {
		return &evalCtx{c: c, st: cur, old: old, pkg: pkg, preds: con.Preds, calleeFact: true, names: func(n string) (Val, bool) {
			v, ok := env[n]
			return v, ok
		}}
	}
	ec := mk(st, nil)
	for _, l := range con.Lets {
		env[l.Name] = ec.eval(l.Expr)
	}
	short := shortFunc(key)
	for _, r := range con.Requires {
		if r.Canary {
			continue
		}
		c.oblige(st, "pre", "precondition of "+short, ec.boolOf(r.Expr), pos, "call "+short+": requires "+r.Text)
	}
	if con.Panics != nil {
		pc := ec.boolOf(con.Panics.Expr)
		c.oblige(st, "pre-panic", short+" does not panic here", not(pc), pos, "call "+short+": panics_when "+con.Panics.Text)
	}
	if con.External || con.Trusted {
		c.eng.noteAssumed(con)
	}
	if con.SchedPoint {
		c.schedPoint(st)
	}
	// frame
	for _, m := range con.Modifies {
		c.applyModifies(st, pre, mk(pre, nil), m)
	}
	if !con.Pure || len(con.Fresh) > 0 {
		nw := c.declare("wm", "Int")
		c.assume(st, sx(">=", nw, st.wm))
		st.wm = nw
	}
	var vals []Val
	for i, t := range tupleOrSingle(rt) {
		v := c.freshVal(st, t, fmt.Sprintf("r_%s_%d", sanitize(lastName(short)), i))
		vals = append(vals, v)
		if i < len(rn) {
			env[rn[i]] = v
		}
		env[fmt.Sprintf("result%d", i)] = v
		if i == 0 {
			env["result"] = v
		}
	}
	for _, f := range con.Fresh {
		v, ok := env[f]
		if !ok {
			bail("contract %s: fresh %s: unknown result", key, f)
		}
		switch v.K {
		case kSlice, kPtr:
			c.assume(st, or(eq(v.Ref, "0"), and(sx(">=", v.Ref, pre.wm), sx("<", v.Ref, st.wm))))
		case kMap:
			c.assume(st, or(eq(v.S, "0"), and(sx(">=", v.S, pre.wm), sx("<", v.S, st.wm))))
		case kIface:
			if con.External {
				// assumed contract of a constructor outside /repo: the interface value itself is new
				c.assume(st, or(eq(v.S, "0"), and(sx(">=", v.S, pre.wm), sx("<", v.S, st.wm))))
				break
			}
			c.assume(st, or(eq(v.S, "0"), and(sx(">=", v.S, pre.wm), sx("<", v.S, st.wm)), and(sx(">=", sx("unbox", v.S), pre.wm), sx("<", sx("unbox", v.S), st.wm))))
		}
	}
	post := mk(st, pre)
	for _, en := range con.Ensures {
		if en.Canary || mentionsMark(en.Text) {
			// at(NAME, e) names a program point inside the callee: such a
			// postcondition is proved of the body but says nothing a caller can use
			continue
		}
		c.assume(st, post.boolOf(en.Expr))
	}
	for _, en := range con.AssumedEnsures {
		c.assume(st, post.boolOf(en.Expr))
		c.eng.assumedClauses[short+": "+en.Text] = true
	}
	return packResults(rt, vals)
}

// schedPoint: every guarded field of every monitor type of the package under
// verification becomes arbitrary (another goroutine may have held the lock).
func (c *FnCtx) schedPoint(st *State) {
	if c.fn.Pkg == nil {
		return
	}
	pkg := c.fn.Pkg.Pkg
	for _, m := range monitors[pkg.Path()] {
		obj := pkg.Scope().Lookup(m[0])
		if obj == nil {
			bail("monitor: no type %s in %s", m[0], pkg.Path())
		}
		stt, ok := obj.Type().Underlying().(*types.Struct)
		if !ok {
			bail("monitor: %s is not a struct", m[0])
		}
		found := false
		for i := 0; i < stt.NumFields(); i++ {
			if stt.Field(i).Name() != m[1] {
				continue
			}
			found = true
			ft := stt.Field(i).Type()
			switch ft.Underlying().(type) {
			case *types.Struct, *types.Array:
				bail("monitor: guarded aggregate field %s.%s", m[0], m[1])
			}
			c.heapHavocKey(st, heapKey(obj.Type(), []int{i}), sortOf(ft))
		}
		if !found {
			bail("monitor: no field %s in %s", m[1], m[0])
		}
	}
	c.note("scheduling points (Lock/Unlock/Wait) havoc the guarded fields declared by monitor clauses of %s; other fields are assumed stable", pkg.Path())
}

func lastName(s string) string {
	if i := strings.LastIndex(s, "."); i >= 0 {
		return s[i+1:]
	}
	return s
}

// applyModifies havocs the target of one modifies clause. The target is
// evaluated in the pre-state.
func (c *FnCtx) applyModifies(st, pre *State, ec *evalCtx, m *Clause) {
	if m.Cond != nil {
		// conditional frame: the havoc takes effect only when COND held in the pre-state
		cond := c.defAlways("modcond", "Bool", ec.boolOf(m.Cond))
		before := map[string]string{}
		for k, v := range st.heap {
			before[k] = v
		}
		ep := st.ep
		mm := *m
		mm.Cond = nil
		c.applyModifies(st, pre, ec, &mm)
		if st.ep != ep {
			bail("conditional 'modifies heap' is not supported")
		}
		var keys []string
		for k := range st.heap {
			keys = append(keys, k)
		}
		sort.Strings(keys)
		for _, k := range keys {
			nv := st.heap[k]
			ov, ok := before[k]
			if !ok {
				ov = c.epochGet(st.ep, k)
			}
			if ov != nv {
				st.heap[k] = c.defAlways(k, c.heapSortOf(k), ite(cond, nv, ov))
			}
		}
		return
	}
	if id, ok := m.Expr.(*ast.Ident); ok && id.Name == "heap" {
		c.havocAll(st, "modifies heap")
		return
	}
	if call, ok := m.Expr.(*ast.CallExpr); ok {
		if id, ok := call.Fun.(*ast.Ident); ok && id.Name == "ghost" {
			ref, key, sort := ec.ghostCell(call)
			nv := c.declare("ghost", sort)
			c.heapWrite(st, key, sort, ref, "0", nv)
			return
		}
	}
	if se, ok := m.Expr.(*ast.StarExpr); ok {
		if call, ok := se.X.(*ast.CallExpr); ok {
			if id, ok := call.Fun.(*ast.Ident); ok && id.Name == "allfields" {
				p := ec.eval(call.Args[0])
				if p.K != kPtr {
					bail("modifies %s: not a pointer", m.Text)
				}
				c.havocObject(st, p, pointeeOfVal(p))
				return
			}
		}
		p := ec.eval(se.X)
		if p.K != kPtr {
			bail("modifies %s: not a pointer", m.Text)
		}
		c.havocObject(st, p, pointeeOfVal(p))
		return
	}
	// field of a pointer: p.f
	if sel, ok := m.Expr.(*ast.SelectorExpr); ok {
		base := ec.eval(sel.X)
		if base.K == kPtr {
			stt, ok := pointeeOfVal(base).Underlying().(*types.Struct)
			if ok {
				idx, emb := findField(stt, sel.Sel.Name)
				if idx >= 0 && len(emb) == 0 {
					ft := stt.Field(idx).Type()
					fp := c.fieldAddr(base, idx, types.NewPointer(ft))
					c.havocObject(st, fp, ft)
					return
				}
			}
		}
	}
	v := ec.eval(m.Expr)
	switch v.K {
	case kSlice:
		for _, k := range elemKeys(v.Root) {
			if k.array {
				bail("modifies on slice of structs with arrays")
			}
			ls := sortOf(k.typ)
			h := c.heapGet(st, k.key, ls)
			old := c.defAlways("row", "(Array Int "+ls+")", sx("select", h, v.Ref))
			hv := c.declare("hvrow", "(Array Int "+ls+")")
			row := c.defRow(ls, fmt.Sprintf("(ite (and (<= %s i) (< i (+ %s %s))) (select %s i) (select %s i))", v.Off, v.Off, v.Len, hv, old))
			c.heapWriteRow(st, k.key, ls, v.Ref, row)
		}
	case kPtr:
		c.havocObject(st, v, pointeeOfVal(v))
	default:
		bail("modifies %s: unsupported target kind %d", m.Text, v.K)
	}
}

// havocObject gives every cell of the object of type t at p an arbitrary value.
func (c *FnCtx) havocObject(st *State, p Val, t types.Type) {
	switch u := t.Underlying().(type) {
	case *types.Struct:
		for i := 0; i < u.NumFields(); i++ {
			ft := u.Field(i).Type()
			fp := c.fieldAddr(Val{K: kPtr, T: types.NewPointer(t), Ref: p.Ref, Idx: p.Idx, Root: p.Root, Path: p.Path}, i, types.NewPointer(ft))
			c.havocObject(st, fp, ft)
		}
	case *types.Array:
		if kindOf(u.Elem()) == kStruct || kindOf(u.Elem()) == kArray {
			bail("havoc of array of aggregates")
		}
		ls := sortOf(u.Elem())
		if p.Idx != "0" {
			bail("havoc of array at interior index")
		}
		row := c.declare("row", "(Array Int "+ls+")")
		c.heapWriteRow(st, heapKey(p.Root, nil), ls, p.Ref, row)
	default:
		v := c.freshVal(st, t, "hv")
		c.store(st, p, v)
	}
}

// ---- name resolution inside the function under verification ----

func (c *FnCtx) resolver(fr *frame, li *loopInfo, results []Val) func(string) (Val, bool) {
	fn := fr.fn
	return func(name string) (Val, bool) {
		if g, ok := c.ghost[name]; ok {
			return g, true
		}
		// loop phis, innermost first
		if li != nil {
			if v, ok := c.phiByName(fr, li, name); ok {
				return v, true
			}
			for _, outer := range fr.loops {
				if outer != li && outer.blocks[li.head] {
					if v, ok := c.phiByName(fr, outer, name); ok {
						return v, true
					}
				}
			}
		}
		if li != nil {
			// inside a loop a (reassigned) parameter denotes its current value
			if v, ok := c.debugLookup(fr, li, name); ok {
				return v, true
			}
		}
		for _, p := range fn.Params {
			if p.Name() == name {
				return fr.regs[p], true
			}
		}
		for _, fv := range fn.FreeVars {
			if fv.Name() == name {
				return fr.regs[fv], true
			}
		}
		if results != nil {
			sig := fn.Signature
			for i := 0; i < sig.Results().Len() && i < len(results); i++ {
				if sig.Results().At(i).Name() == name || fmt.Sprintf("result%d", i) == name || (i == 0 && name == "result") {
					return results[i], true
				}
			}
		}
		if len(name) > 1 && name[0] == 't' && isDigits(name[1:]) {
			for v, r := range fr.regs {
				if v.Name() == name {
					return r, true
				}
			}
		}
		// source variables through debug references
		if v, ok := c.debugLookup(fr, li, name); ok {
			return v, true
		}
		return Val{}, false
	}
}

func isDigits(s string) bool {
	for _, r := range s {
		if r < '0' || r > '9' {
			return false
		}
	}
	return s != ""
}

func (c *FnCtx) phiByName(fr *frame, li *loopInfo, name string) (Val, bool) {
	for _, in := range li.head.Instrs {
		p, ok := in.(*ssa.Phi)
		if !ok {
			break
		}
		if p.Comment == name {
			v, ok := fr.regs[p]
			return v, ok
		}
	}
	return Val{}, false
}

// debugLookup finds the SSA value of a source variable that is not changed
// inside the loop (or, without a loop, its last definition seen so far).
func (c *FnCtx) debugLookup(fr *frame, li *loopInfo, name string) (Val, bool) {
	if v, isAddrTaken, ok := c.addrTakenLocal(fr, name); isAddrTaken {
		return v, ok
	}
	var best ssa.Value
	bestAddr := false
	consider := func(d *ssa.DebugRef) {
		id, ok := d.Expr.(*ast.Ident)
		if !ok || id.Name != name {
			return
		}
		if _, computed := fr.regs[d.X]; !computed {
			if _, isConst := d.X.(*ssa.Const); !isConst {
				if _, isG := d.X.(*ssa.Global); !isG {
					return
				}
			}
		}
		if li != nil {
			// value must be defined outside the loop
			if in, ok := d.X.(ssa.Instruction); ok && li.blocks[in.Block()] {
				if _, isPhi := d.X.(*ssa.Phi); !isPhi || in.Block() != li.head {
					return
				}
			}
		}
		best = d.X
		bestAddr = d.IsAddr
	}
	for _, b := range fr.fn.Blocks {
		if li != nil && !li.blocks[b] && !b.Dominates(li.head) {
			continue
		}
		for _, in := range b.Instrs {
			if d, ok := in.(*ssa.DebugRef); ok {
				consider(d)
			}
		}
	}
	if best == nil {
		return Val{}, false
	}
	v := c.value(fr, best)
	if bestAddr {
		// a local array is used through its address (indexing, slicing)
		if pt, ok := best.Type().Underlying().(*types.Pointer); ok && v.K == kPtr {
			if _, isArr := pt.Elem().Underlying().(*types.Array); isArr {
				return v, true
			}
			// a local struct whose address is taken: the name denotes the
			// variable (fields are read in the state of the clause)
			if _, isStruct := pt.Elem().Underlying().(*types.Struct); isStruct {
				return v, true
			}
		}
		return Val{}, false
	}
	return v, true
}

func (c *FnCtx) evalClause(fr *frame, st *State, cl *Clause, li *loopInfo) string {
	var pkg *types.Package
	if fr.fn.Pkg != nil {
		pkg = fr.fn.Pkg.Pkg
	}
	var preds map[string]*Pred
	if fr.con != nil {
		preds = fr.con.Preds
	}
	ec := &evalCtx{c: c, st: st, old: c.entry, pkg: pkg, preds: preds, names: c.resolver(fr, li, nil)}
	if li != nil && fr.loopEntrySt != nil {
		ec.loopEntry = fr.loopEntrySt[li]
	}
	ec.entryName = func(name string) (Val, bool) {
		for _, p := range fr.fn.Params {
			if p.Name() == name {
				v, ok := fr.regs[p]
				return v, ok
			}
		}
		return Val{}, false
	}
	ec.loopVar = func(n int, name string) (Val, bool) {
		for _, l := range fr.loops {
			if l.ord == n {
				return c.phiByName(fr, l, name)
			}
		}
		return Val{}, false
	}
	for k, v := range c.lets {
		if ec.bound == nil {
			ec.bound = map[string]Val{}
		}
		ec.bound[k] = v
	}
	return ec.boolOf(cl.Expr)
}

// verifyFunction generates all obligations of one function under contract.
func (eng *Engine) verifyFunction(fn *ssa.Function, con *Contract, bounded int) (ctx *FnCtx, err error) {
	c := &FnCtx{eng: eng, fn: fn, con: con, bounded: bounded, ghost: map[string]Val{}, usedSpecs: map[string]bool{}, lets: map[string]Val{}, panicCond: "false", nonNil: map[string]bool{}}
	defer func() {
		if r := recover(); r != nil {
			if u, ok := r.(unsupported); ok {
				err = fmt.Errorf("%s: outside subset: %s", shortFunc(fn.String()), u.msg)
				ctx = c
				return
			}
			panic(r)
		}
	}()
	st := &State{guard: "true", heap: map[string]string{}}
	st.ep = c.newEpoch()
	st.wm = c.declare("wm0", "Int")
	c.assumeRaw(sx(">", st.wm, "100000"))
	fr := &frame{fn: fn, regs: map[ssa.Value]Val{}, con: con, top: true}
	for i, p := range fn.Params {
		v := c.freshVal(st, p.Type(), "p_"+sanitize(p.Name()))
		fr.regs[p] = v
		c.replayParams = append(c.replayParams, replayParam{Name: p.Name(), T: p.Type(), V: v})
		if v.K == kPtr {
			nonnil := i == 0 && fn.Signature.Recv() != nil && con.RecvNonNil
			for _, n := range con.NonNil {
				if n == p.Name() {
					nonnil = true
				}
			}
			if nonnil {
				c.assumeRaw(sx(">", v.Ref, "0"))
				c.nonNil[v.Ref] = true
			} else {
				c.assumeRaw(sx(">=", v.Ref, "0"))
			}
		}
		if bounded > 0 {
			// bounded stand-in: small inputs only (stated bound: boundedQ elements)
			switch v.K {
			case kSlice:
				c.assumeRaw(sx("<=", v.Len, num(boundedQ)))
			case kStr:
				c.assumeRaw(sx("<=", sx("slen", v.S), num(boundedQ)))
			}
		}
		if v.K == kSlice {
			c.assumeRaw(sx(">=", v.Ref, "0"))
			c.assumeRaw(implies(eq(v.Ref, "0"), and(eq(v.Cap, "0"), eq(v.Off, "0"))))
		}
	}
	for _, fv := range fn.FreeVars {
		fr.regs[fv] = c.freshVal(st, fv.Type(), "fv_"+sanitize(fv.Name()))
	}
	c.entry = st.clone()
	var pkg *types.Package
	if fn.Pkg != nil {
		pkg = fn.Pkg.Pkg
	}
	ec := &evalCtx{c: c, st: st, old: nil, pkg: pkg, preds: con.Preds, names: c.resolver(fr, nil, nil)}
	for _, l := range con.Lets {
		ec.bound = c.lets
		c.lets[l.Name] = ec.eval(l.Expr)
	}
	ec.bound = c.lets
	for _, r := range con.Requires {
		if r.Canary {
			continue
		}
		c.assume(st, ec.boolOf(r.Expr))
	}
	if pkg != nil {
		for _, gf := range globalFacts[pkg.Path()] {
			c.assume(st, ec.boolOf(gf.Expr))
			c.note("assumed about package-level state of %s: %s", pkg.Path(), gf.Text)
		}
		for _, gf := range con.GlobalFacts {
			c.assume(st, ec.boolOf(gf.Expr))
			c.note("assumed on entry of %s (package-level state or representation invariant; not asked of callers): %s", shortFunc(fn.String()), gf.Text)
		}
	}
	if con.Panics != nil {
		c.panicCond = c.defAlways("panics_when", "Bool", ec.boolOf(con.Panics.Expr))
	}
	// restrictions on the models asked for when a failing input is searched
	// (never assumed in a proof): named terms defined now, asserted later
	for _, ra := range con.ReplayAssume {
		c.replayAssume = append(c.replayAssume, c.defAlways("replay_assume", "Bool", ec.boolOf(ra.Expr)))
	}
	c.entry = st.clone()
	rst, rvals := c.run(fr, st)
	c.resultVals = rvals
	if bounded == 0 {
		// every assert_at / check_at / mark must have found its source line
		for _, a := range con.Asserts {
			if !c.matched[a] {
				// the other clauses of the contract are still checked; this one is reported as not bound
				c.unbound = append(c.unbound, fmt.Sprintf("contract of %s names a source line that does not exist (or is unreachable): %q", shortFunc(fn.String()), a.Name))
			}
		}
	}
	c.exitState = rst
	// postconditions at the merged return
	if rst.guard != "false" {
		pc := &evalCtx{c: c, st: rst, old: c.entry, pkg: pkg, preds: con.Preds, names: c.resolver(fr, nil, rvals), bound: c.lets}
		for _, en := range con.Ensures {
			t := pc.boolOf(en.Expr)
			c.canaryNext = en.Canary
			o := c.oblige(rst, "post", "postcondition", t, fn.Pos(), "ensures "+en.Text)
			if o != nil && en.Canary {
				o.Canary = true
			}
		}
		if con.Panics != nil && !con.PanicsMay {
			c.oblige(rst, "post", "documented panic condition excludes a normal return", not(c.panicCond), fn.Pos(), "panics_when "+con.Panics.Text)
		}
		// fresh results: nil or allocated during the call
		for _, f := range con.Fresh {
			v, ok := pc.names(f)
			if !ok {
				bail("contract %s: fresh %s: unknown result", con.Key, f)
			}
			var t string
			switch v.K {
			case kSlice, kPtr:
				t = or(eq(v.Ref, "0"), sx(">=", v.Ref, c.entry.wm))
			case kMap:
				t = or(eq(v.S, "0"), sx(">=", v.S, c.entry.wm))
			case kIface:
				// an interface value is new when it is one, or boxes a new pointer
				t = or(eq(v.S, "0"), sx(">=", v.S, c.entry.wm), sx(">=", sx("unbox", v.S), c.entry.wm))
			default:
				continue
			}
			c.oblige(rst, "post", "result is nil or newly allocated", t, fn.Pos(), "fresh "+f)
		}
		// frame: nothing but the declared locations changed
		if bounded == 0 {
			fe := &evalCtx{c: c, st: c.entry, old: nil, pkg: pkg, preds: con.Preds, names: c.resolver(fr, nil, nil), bound: c.lets}
			c.frameCheck(fr, con, rst, fe)
		}
	}
	// reachability cover of the normal return
	cov := &Obligation{Key: shortFunc(fn.String()) + "/cover/return", Kind: "cover", Func: fn.String(), Desc: "some normal return is reachable under the preconditions", Prefix: len(c.script), Goal: not(rst.guard), Cover: true, ctx: c}
	c.obls = append(c.obls, cov)
	return c, nil
}

// mentionsMark reports whether a clause text uses at(NAME, e).
func mentionsMark(s string) bool {
	for i := 0; i+3 <= len(s); i++ {
		if s[i:i+3] == "at(" {
			if i == 0 {
				return true
			}
			ch := s[i-1]
			if !(ch == '_' || ch >= 'a' && ch <= 'z' || ch >= 'A' && ch <= 'Z' || ch >= '0' && ch <= '9') {
				return true
			}
		}
	}
	return false
}
