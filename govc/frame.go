package main

// Frame check: the body of a function under contract may change only the
// locations its modifies clauses name (plus objects it allocated itself and
// the guarded fields of monitor types at scheduling points). Callers rely on
// exactly this when they apply the contract, so it is an obligation of the
// body, not an assumption.
//
// For every heap map K whose exit term differs from its entry term the
// obligation is, for fresh (universally read) r and i:
//
//	objroot(r) < wm_entry  and  not covered_K(r, i)
//	   =>  K_exit[r][i] = K_entry[r][i]
//
// covered_K comes from the modifies clauses: slices cover their index range
// in their object; every other target covers the whole row of each object
// its havoc writes (field cells, array rows, ghost cells).

import (
	"fmt"
	"os"
	"go/ast"
	"go/types"
	"sort"
	"strings"
)

// GOVC_NOFRAME=1 switches the frame check off (for comparison only).
var os_noFrame = os.Getenv("GOVC_NOFRAME") != ""

type frameCover struct {
	key    string
	ref    string // "" = any object
	lo, hi string // index range; "" = whole row
	cond   string // "" or the condition of a "modifies ... if COND" clause
}

// objrootDef decodes the sub-object encoding of subref (exec.go fieldAddr):
// the object a (possibly nested) by-value field or array belongs to.
const objrootDef = `(define-fun subparent ((x Int)) Int (let ((e (div (- (- 0 x) 1) 4611686018427387904))) (ite (= (mod e 2) 0) (div e 2) (- 0 (div (- e 1) 2)))))
(define-fun objroot ((r Int)) Int (let ((p1 (ite (>= r 0) r (subparent r)))) (let ((p2 (ite (>= p1 0) p1 (subparent p1)))) (let ((p3 (ite (>= p2 0) p2 (subparent p2)))) (ite (>= p3 0) p3 (subparent p3))))))
`

func (c *FnCtx) frameCovers(fr *frame, con *Contract, ec *evalCtx) (covers []frameCover, all bool) {
	for _, m := range con.Modifies {
		if id, ok := m.Expr.(*ast.Ident); ok && id.Name == "heap" {
			all = true
		}
	}
	scratch := c.entry.clone()
	prevHook := c.writeHook
	defer func() { c.writeHook = prevHook }()
	for _, m := range con.Modifies {
		if id, ok := m.Expr.(*ast.Ident); ok && id.Name == "heap" {
			continue
		}
		first := len(covers)
		cond := ""
		if m.Cond != nil {
			cond = ec.boolOf(m.Cond)
			mm := *m
			mm.Cond = nil
			m = &mm
		}
		setCond := func() {
			for k := first; k < len(covers); k++ {
				covers[k].cond = cond
			}
		}
		// slices: exact index range
		isSlice := false
		func() {
			defer func() {
				if r := recover(); r != nil {
					if _, ok := r.(unsupported); !ok {
						panic(r)
					}
				}
			}()
			if _, ok := m.Expr.(*ast.SliceExpr); !ok {
				if _, ok2 := m.Expr.(*ast.Ident); !ok2 {
					return
				}
			}
			v := ec.eval(m.Expr)
			if v.K == kSlice {
				isSlice = true
				for _, k := range elemKeys(v.Root) {
					covers = append(covers, frameCover{key: k.key, ref: v.Ref, lo: v.Off, hi: add(v.Off, v.Len)})
				}
			}
		}()
		if isSlice {
			setCond()
			continue
		}
		c.writeHook = func(key, ref string, full bool) {
			if full || ref == "" {
				covers = append(covers, frameCover{key: key})
				return
			}
			covers = append(covers, frameCover{key: key, ref: ref})
		}
		c.applyModifies(scratch, c.entry, ec, m)
		c.writeHook = prevHook
		setCond()
	}
	return covers, all
}

func (c *FnCtx) frameCheck(fr *frame, con *Contract, rst *State, ec *evalCtx) {
	if rst.guard == "false" || os_noFrame {
		return
	}
	// "modifies heap" allows any change of real memory; ghost fields are
	// specification state and stay under the frame discipline
	covers, all := c.frameCovers(fr, con, ec)
	if os.Getenv("GOVC_DEBUGFRAME") != "" {
		for _, cv := range covers {
			fmt.Fprintf(os.Stderr, "cover %s: key=%s ref=%s lo=%s hi=%s cond=%s\n", fr.fn.Name(), cv.key, cv.ref, cv.lo, cv.hi, cv.cond)
		}
	}
	// guarded fields of monitor types change at scheduling points
	if fr.fn.Pkg != nil {
		pkg := fr.fn.Pkg.Pkg
		for _, m := range monitors[pkg.Path()] {
			if obj := pkg.Scope().Lookup(m[0]); obj != nil {
				if stt, ok := obj.Type().Underlying().(*types.Struct); ok {
					for i := 0; i < stt.NumFields(); i++ {
						if stt.Field(i).Name() == m[1] {
							covers = append(covers, frameCover{key: heapKey(obj.Type(), []int{i})})
						}
					}
				}
			}
		}
	}
	var keys []string
	for k := range c.heapSort {
		if strings.HasPrefix(k, "G_") || strings.HasPrefix(k, "H_") && !all {
			keys = append(keys, k)
		}
	}
	sort.Strings(keys)
	r := c.declare("frame_r", "Int")
	i := c.declare("frame_i", "Int")
	for _, k := range keys {
		ls := c.heapSort[k]
		hin := c.heapGet(c.entry, k, ls)
		hout := c.heapGet(rst, k, ls)
		if hin == hout {
			continue
		}
		var cov, covObj []string
		anyObj, ranged := false, false
		for _, cv := range covers {
			if cv.key != k && cv.key != "*" {
				continue
			}
			cnd := cv.cond
			if cnd == "" {
				cnd = "true"
			}
			switch {
			case cv.ref == "" && cv.cond == "":
				anyObj = true
			case cv.ref == "":
				cov = append(cov, cnd)
				covObj = append(covObj, cnd)
			case cv.lo == "":
				cov = append(cov, and(cnd, eq(r, cv.ref)))
				covObj = append(covObj, and(cnd, eq(r, cv.ref)))
			default:
				ranged = true
				cov = append(cov, and(cnd, eq(r, cv.ref), sx("<=", cv.lo, i), sx("<", i, cv.hi)))
				covObj = append(covObj, and(cnd, eq(r, cv.ref)))
			}
		}
		if anyObj {
			continue
		}
		name := strings.TrimPrefix(strings.TrimPrefix(k, "H_"), "G_")
		same := eq(sx("select", sx("select", hout, r), i), sx("select", sx("select", hin, r), i))
		old := sx("<", sx("objroot", r), c.entry.wm)
		// object granularity: no object other than the declared ones changes
		c.oblige(rst, "frameobj", "only objects named by modifies clauses (and newly allocated ones) change", implies(and(old, not(or(covObj...))), same), fr.fn.Pos(), "frame (objects) of "+name)
		if ranged {
			// cell granularity: inside a declared object only the declared index range changes
			c.oblige(rst, "frame", "inside the objects named by modifies clauses only the declared index ranges change", implies(and(old, not(or(cov...))), same), fr.fn.Pos(), "frame (index ranges) of "+name)
		}
	}
}
