package main

// Loop handling: cut at the head with invariants, or complete unrolling of
// constant-trip-count loops; plus the dry run that finds what a loop writes.

import (
	"fmt"
	"go/constant"
	"go/token"
	"go/types"
	"math/big"
	"strings"

	"golang.org/x/tools/go/ssa"
)

type writeRec struct {
	key  string
	ref  string
	full bool
}

type router func(from, to *ssa.BasicBlock, st *State)

// runOrder drives execution over blocks (topological order, back edges cut).
func (c *FnCtx) runOrder(fr *frame, blocks []*ssa.BasicBlock, incoming map[*ssa.BasicBlock][]edgeState, route router, special *ssa.BasicBlock, specialPhis map[*ssa.Phi]Val, done map[*ssa.BasicBlock]bool) {
	for _, b := range blocks {
		if done[b] {
			continue
		}
		ins := incoming[b]
		if len(ins) == 0 {
			continue
		}
		var sts []*State
		for _, e := range ins {
			sts = append(sts, e.st)
		}
		st := c.mergeStates(sts)
		if st.guard == "false" {
			continue
		}
		// registers carried out of unrolled loops by the incoming edges
		{
			keys := map[ssa.Value]bool{}
			for _, e := range ins {
				for k := range e.st.snap {
					keys[k] = true
				}
			}
			for k := range keys {
				var v Val
				first := true
				for i := len(ins) - 1; i >= 0; i-- {
					sv, ok := ins[i].st.snap[k]
					if !ok {
						continue
					}
					if first {
						v = sv
						first = false
					} else {
						v = c.iteVal(ins[i].st.guard, sv, v)
					}
				}
				fr.regs[k] = v
			}
			st.snap = nil
		}
		var phis []*ssa.Phi
		for _, in := range b.Instrs {
			if p, ok := in.(*ssa.Phi); ok {
				phis = append(phis, p)
			} else {
				break
			}
		}
		if b == special {
			for _, p := range phis {
				fr.regs[p] = specialPhis[p]
			}
			c.execBlock(fr, b, st, route)
			continue
		}
		entryPhi := map[*ssa.Phi]Val{}
		for _, p := range phis {
			var v Val
			first := true
			for i := len(ins) - 1; i >= 0; i-- {
				e := ins[i]
				pi := -1
				for k, pr := range b.Preds {
					if pr == e.from {
						pi = k
					}
				}
				if pi < 0 {
					bail("phi: predecessor not found")
				}
				ev := c.coerce(c.value(fr, p.Edges[pi]), p.Type())
				if first {
					v = ev
					first = false
				} else {
					v = c.iteVal(e.st.guard, ev, v)
				}
			}
			entryPhi[p] = v
		}
		li := fr.loops[b]
		if li == nil {
			for _, p := range phis {
				fr.regs[p] = c.nameVal(entryPhi[p], phiName(p))
			}
			c.execBlock(fr, b, st, route)
			continue
		}
		if n, ok := c.constTrip(fr, li, entryPhi); ok && (len(c.loopClauses(fr, li)) == 0 || c.bounded > 0) && (c.bounded == 0 || n <= 64) {
			c.unroll(fr, li, st, entryPhi, phis, blocks, route, done, n)
			continue
		}
		if c.bounded > 0 {
			// bounded stand-in: explore at most c.bounded iterations, drop longer runs
			c.unroll(fr, li, st, entryPhi, phis, blocks, route, done, -c.bounded)
			continue
		}
		c.loopHead(fr, li, st, entryPhi, phis, blocks, done)
		c.execBlock(fr, b, st, route)
	}
}

func (c *FnCtx) loopClauses(fr *frame, li *loopInfo) []*Clause {
	if fr.con == nil {
		return nil
	}
	return fr.con.Loops[li.ord]
}

// constTrip recognises "for i := C0; i < C1; i += C2" style loops (also the
// range-over-array/int form ssa produces) and returns the trip count.
func (c *FnCtx) constTrip(fr *frame, li *loopInfo, entryPhi map[*ssa.Phi]Val) (int, bool) {
	h := li.head
	ifi, ok := h.Instrs[len(h.Instrs)-1].(*ssa.If)
	if !ok {
		return 0, false
	}
	bo, ok := ifi.Cond.(*ssa.BinOp)
	if !ok {
		return 0, false
	}
	lim, ok := bo.Y.(*ssa.Const)
	if !ok || lim.Value == nil || lim.Value.Kind() != constant.Int {
		return 0, false
	}
	limit, _ := constant.Int64Val(lim.Value)
	// X is phi or phi + const
	var phi *ssa.Phi
	pre := int64(0)
	switch x := bo.X.(type) {
	case *ssa.Phi:
		phi = x
	case *ssa.BinOp:
		p, ok1 := x.X.(*ssa.Phi)
		k, ok2 := x.Y.(*ssa.Const)
		if !ok1 || !ok2 || x.Op != token.ADD || k.Value == nil {
			return 0, false
		}
		phi = p
		pre, _ = constant.Int64Val(k.Value)
	default:
		return 0, false
	}
	if phi.Block() != h {
		return 0, false
	}
	ev, ok := entryPhi[phi]
	if !ok {
		return 0, false
	}
	startB, ok := isNumLit(ev.S)
	if !ok || !startB.IsInt64() {
		return 0, false
	}
	start := startB.Int64()
	// step: every back edge value is phi+const or (phi+pre)
	step := int64(0)
	for i, p := range h.Preds {
		if !li.blocks[p] {
			continue
		}
		e := phi.Edges[i]
		if e == bo.X && pre != 0 {
			if step != 0 && step != pre {
				return 0, false
			}
			step = pre
			continue
		}
		b, ok := e.(*ssa.BinOp)
		if !ok || b.X != ssa.Value(phi) {
			return 0, false
		}
		k, ok := b.Y.(*ssa.Const)
		if !ok || k.Value == nil {
			return 0, false
		}
		kv, _ := constant.Int64Val(k.Value)
		switch b.Op {
		case token.ADD:
		case token.SUB:
			kv = -kv
		default:
			return 0, false
		}
		if step != 0 && step != kv {
			return 0, false
		}
		step = kv
	}
	if step == 0 {
		return 0, false
	}
	// the loop continues while cond holds on succs[0] inside the loop
	inTrue := li.blocks[h.Succs[0]]
	n := 0
	for i := start; n <= 4096; i += step {
		x := i + pre
		var cond bool
		switch bo.Op {
		case token.LSS:
			cond = x < limit
		case token.LEQ:
			cond = x <= limit
		case token.GTR:
			cond = x > limit
		case token.GEQ:
			cond = x >= limit
		case token.NEQ:
			cond = x != limit
		default:
			return 0, false
		}
		if cond != inTrue {
			return n, true
		}
		n++
	}
	return 0, false
}

func loopBlocksInOrder(li *loopInfo, blocks []*ssa.BasicBlock) []*ssa.BasicBlock {
	var out []*ssa.BasicBlock
	for _, b := range blocks {
		if li.blocks[b] {
			out = append(out, b)
		}
	}
	return out
}

// unroll executes the loop n times plus the final failing test.
func (c *FnCtx) unroll(fr *frame, li *loopInfo, st *State, entryPhi map[*ssa.Phi]Val, phis []*ssa.Phi, blocks []*ssa.BasicBlock, outer router, done map[*ssa.BasicBlock]bool, n int) {
	boundedMode := false
	if n < 0 {
		boundedMode = true
		n = -n
	}
	if n > 4096 {
		bail("unroll: trip count %d over the cap", n)
	}
	if c.bounded > 0 && c.dry == 0 {
		// bounded stand-in runs stay small: give up rather than build a huge query
		c.boundedIters += n
		if c.boundedIters > 200 {
			bail("bounded stand-in run too large (more than 200 unrolled iterations)")
		}
	}
	c.unrolled++
	if fr.unrolling == nil {
		fr.unrolling = map[*loopInfo]bool{}
	}
	fr.unrolling[li] = true
	defer func() { fr.unrolling[li] = false }()
	lb := loopBlocksInOrder(li, blocks)
	cur := map[*ssa.Phi]Val{}
	for p, v := range entryPhi {
		cur[p] = v
	}
	state := st
	for iter := 0; iter <= n; iter++ {
		local := map[*ssa.BasicBlock][]edgeState{}
		local[li.head] = []edgeState{{nil, state}}
		var backs []edgeState
		route := func(from, to *ssa.BasicBlock, s *State) {
			if to == li.head {
				backs = append(backs, edgeState{from, s})
				return
			}
			if li.blocks[to] {
				local[to] = append(local[to], edgeState{from, s})
				return
			}
			// leaving the loop: remember the loop-defined registers of this iteration
			sn := map[ssa.Value]Val{}
			for k, v := range s.snap {
				sn[k] = v
			}
			for k, v := range fr.regs {
				if in, ok := k.(ssa.Instruction); ok && in.Block() != nil && li.blocks[in.Block()] {
					sn[k] = v
				}
			}
			s.snap = sn
			outer(from, to, s)
		}
		inner := map[*ssa.BasicBlock]bool{}
		c.runOrder(fr, lb, local, route, li.head, cur, inner)
		if len(backs) == 0 {
			break
		}
		if iter == n {
			if boundedMode {
				break // longer executions are not explored
			}
			// the head test did not fold to false: not a constant loop after all
			bail("unroll: loop at %s still iterating after %d iterations", c.posString(loopPos(li)), n)
		}
		var sts []*State
		for _, e := range backs {
			sts = append(sts, e.st)
		}
		next := map[*ssa.Phi]Val{}
		for _, p := range phis {
			var v Val
			for i := len(backs) - 1; i >= 0; i-- {
				e := backs[i]
				pi := -1
				for k, pr := range li.head.Preds {
					if pr == e.from {
						pi = k
					}
				}
				ev := c.coerce(c.value(fr, p.Edges[pi]), p.Type())
				if i == len(backs)-1 {
					v = ev
				} else {
					v = c.iteVal(e.st.guard, ev, v)
				}
			}
			next[p] = c.nameVal(v, phiName(p))
		}
		state = c.mergeStates(sts)
		cur = next
	}
	for _, b := range lb {
		done[b] = true
	}
}

// dryRun executes the loop body once on a scratch copy of the context and
// returns the heap writes it performs.
func (c *FnCtx) dryRun(fr *frame, li *loopInfo, st *State, phis []*ssa.Phi, blocks []*ssa.BasicBlock) (writes []writeRec, wmChanged, epochChanged bool, startCtr int) {
	// snapshot
	nScript, nObls, ctr := len(c.script), len(c.obls), c.ctr
	startCtr = ctr
	savedRegs := map[ssa.Value]Val{}
	for k, v := range fr.regs {
		savedRegs[k] = v
	}
	savedRet, savedRetV := fr.retSts, fr.retVals
	savedOcc := map[string]int{}
	for k, v := range c.occ {
		savedOcc[k] = v
	}
	savedLocals := len(c.locals)
	savedLits := map[string]string{}
	for k, v := range c.strLits {
		savedLits[k] = v
	}
	savedAtoms := map[string]string{}
	for k, v := range c.atoms {
		savedAtoms[k] = v
	}
	defer func() { c.atoms = savedAtoms }()
	savedStrid := map[string]bool{}
	for k, v := range c.stridSeen {
		savedStrid[k] = v
	}
	defer func() { c.stridSeen = savedStrid }()
	savedEpochCache := snapshotEpochs(st)
	savedEpochCtr := c.epochCtr
	savedUnrolled := c.unrolled
	c.dry++
	if fr.unrolling == nil {
		fr.unrolling = map[*loopInfo]bool{}
	}
	wasUnrolling := fr.unrolling[li]
	fr.unrolling[li] = true
	var recs []writeRec
	prevHook := c.writeHook
	c.writeHook = func(key, ref string, full bool) { recs = append(recs, writeRec{key, ref, full}) }

	s := st.clone()
	cur := map[*ssa.Phi]Val{}
	for _, p := range phis {
		entry, hadEntry := fr.regs[p]
		cur[p] = c.freshVal(s, p.Type(), "dry_"+phiName(p))
		if hadEntry && sliceRefStable(p, li) && entry.K == kSlice {
			v := cur[p]
			v.Ref = entry.Ref
			c.assumeWellTyped(s, v)
			cur[p] = v
		}
	}
	local := map[*ssa.BasicBlock][]edgeState{}
	local[li.head] = []edgeState{{nil, s}}
	var ends []*State
	route := func(from, to *ssa.BasicBlock, x *State) {
		if to == li.head {
			ends = append(ends, x)
			return
		}
		if li.blocks[to] {
			local[to] = append(local[to], edgeState{from, x})
			return
		}
		ends = append(ends, x)
	}
	func() {
		defer func() {
			c.dry--
			c.writeHook = prevHook
			fr.unrolling[li] = wasUnrolling
		}()
		c.runOrder(fr, loopBlocksInOrder(li, blocks), local, route, li.head, cur, map[*ssa.BasicBlock]bool{})
	}()
	for _, e := range ends {
		if e.wm != st.wm {
			wmChanged = true
		}
		if e.ep != st.ep {
			epochChanged = true
		}
	}
	// restore
	c.script = c.script[:nScript]
	c.obls = c.obls[:nObls]
	// keep ctr monotone so names never collide with dry-run names recorded in recs
	for k := range fr.regs {
		delete(fr.regs, k)
	}
	for k, v := range savedRegs {
		fr.regs[k] = v
	}
	fr.retSts, fr.retVals = savedRet, savedRetV
	c.occ = savedOcc
	c.locals = c.locals[:savedLocals]
	c.strLits = savedLits
	restoreEpochs(savedEpochCache)
	c.epochCtr = savedEpochCtr
	c.unrolled = savedUnrolled
	return recs, wmChanged, epochChanged, startCtr
}

type epochSnap struct {
	ep    *epoch
	cache map[string]string
}

func snapshotEpochs(st *State) []epochSnap {
	var out []epochSnap
	seen := map[*epoch]bool{}
	var walk func(e *epoch)
	walk = func(e *epoch) {
		if e == nil || seen[e] {
			return
		}
		seen[e] = true
		cp := map[string]string{}
		for k, v := range e.cache {
			cp[k] = v
		}
		out = append(out, epochSnap{e, cp})
		for _, p := range e.parents {
			walk(p.ep)
		}
		if e.prev != nil {
			walk(e.prev.ep)
		}
	}
	walk(st.ep)
	return out
}

func restoreEpochs(s []epochSnap) {
	for _, x := range s {
		x.ep.cache = x.cache
	}
}

// expandFresh rewrites names created after ctr by their definitions. It fails
// when a name has no recorded definition (a declared constant) or when the
// result reads a heap key the loop writes (then the value may change between
// iterations).
func (c *FnCtx) expandFresh(term string, ctr int, written map[string]bool) (string, bool) {
	for depth := 0; depth < 12; depth++ {
		if !dependsOnFresh(term, ctr) {
			break
		}
		var sb strings.Builder
		i := 0
		changed := false
		for i < len(term) {
			ch := term[i]
			if ch == '(' || ch == ')' || ch == ' ' {
				sb.WriteByte(ch)
				i++
				continue
			}
			j := i
			for j < len(term) && term[j] != '(' && term[j] != ')' && term[j] != ' ' {
				j++
			}
			tok := term[i:j]
			i = j
			if k := strings.LastIndexByte(tok, '!'); k > 0 {
				n := 0
				okNum := k+1 < len(tok)
				for _, r := range tok[k+1:] {
					if r < '0' || r > '9' {
						okNum = false
						break
					}
					n = n*10 + int(r-'0')
				}
				if okNum && n > ctr {
					d, has := c.defs[tok]
					if !has {
						return "", false
					}
					sb.WriteString(d)
					changed = true
					continue
				}
			}
			sb.WriteString(tok)
		}
		term = sb.String()
		if !changed {
			break
		}
	}
	if dependsOnFresh(term, ctr) {
		return "", false
	}
	for _, tok := range strings.FieldsFunc(term, func(r rune) bool { return r == '(' || r == ')' || r == ' ' }) {
		if strings.HasPrefix(tok, "H_") || strings.HasPrefix(tok, "G_") || strings.HasPrefix(tok, "M") {
			key := tok
			if k := strings.LastIndexByte(key, '!'); k > 0 {
				key = key[:k]
			}
			if k := strings.LastIndex(key, "@e"); k > 0 {
				key = key[:k]
			}
			key = strings.TrimSuffix(key, "$hv")
			key = strings.TrimSuffix(key, "$loop")
			if written[key] || written["*"] {
				return "", false
			}
		}
	}
	return term, true
}

// dependsOnFresh reports whether a term mentions a name created after ctr.
func dependsOnFresh(term string, ctr int) bool {
	i := 0
	for i < len(term) {
		j := strings.IndexByte(term[i:], '!')
		if j < 0 {
			return false
		}
		k := i + j + 1
		n := 0
		digits := 0
		for k < len(term) && term[k] >= '0' && term[k] <= '9' {
			n = n*10 + int(term[k]-'0')
			k++
			digits++
		}
		if digits > 0 && n > ctr {
			return true
		}
		i = k
	}
	return false
}

func (c *FnCtx) loopHead(fr *frame, li *loopInfo, st *State, entryPhi map[*ssa.Phi]Val, phis []*ssa.Phi, blocks []*ssa.BasicBlock, done map[*ssa.BasicBlock]bool) {
	clauses := c.loopClauses(fr, li)
	auto := c.autoInvariants(fr, li, entryPhi, phis)
	where := fmt.Sprintf("loop %d", li.ord)
	if fr.loopEntrySt == nil {
		fr.loopEntrySt = map[*loopInfo]*State{}
	}
	fr.loopEntrySt[li] = st.clone()
	// 1. invariants hold on entry
	for _, p := range phis {
		fr.regs[p] = entryPhi[p]
	}
	if c.dry == 0 {
		for _, cl := range clauses {
			if cl.Kind != "invariant" {
				continue
			}
			t := c.evalClause(fr, st, cl, li)
			c.canaryNext = cl.Canary
			o := c.oblige(st, "inv-entry", where+" invariant on entry", t, loopPos(li), cl.Text)
			if o != nil && cl.Canary {
				o.Canary = true
			}
		}
		for _, a := range auto {
			c.oblige(st, "inv-entry", where+" auto invariant on entry", a.build(entryPhi), loopPos(li), "auto:"+a.text)
		}
	}
	// 2. find what the loop writes
	writes, wmChanged, epochChanged, startCtr := c.dryRun(fr, li, st, phis, blocks)
	// 3. havoc
	if epochChanged {
		prev := st.clone()
		ep := c.newEpoch()
		ep.prev = prev
		for _, la := range c.locals {
			if la.escaped {
				continue
			}
			written := false
			for _, w := range writes {
				if w.ref == la.ref {
					written = true
				}
			}
			if !written {
				var lk []leafKey
				leafKeysOf(rootOf(la.typ), nil, la.typ, &lk)
				kr := keepRef{ref: la.ref}
				for _, k := range lk {
					if !k.array {
						kr.keys = append(kr.keys, k.key)
					}
				}
				ep.keepRefs = append(ep.keepRefs, kr)
			}
		}
		st.ep = ep
		st.heap = map[string]string{}
		// ghost fields survive calls without contract, but not the writes
		// of contracts ("modifies ghost") inside the loop body
		fullG := map[string]bool{}
		for _, w := range writes {
			if strings.HasPrefix(w.key, "G_") && (w.full || w.ref == "" || dependsOnFresh(w.ref, startCtr)) {
				fullG[w.key] = true
			}
		}
		for _, w := range writes {
			if !strings.HasPrefix(w.key, "G_") || c.heapSort[w.key] == "" {
				continue
			}
			ls := c.heapSort[w.key]
			if fullG[w.key] {
				if _, done := st.heap[w.key]; !done {
					st.heap[w.key] = c.declare(w.key+"$loop", c.heapSortOf(w.key))
				}
				continue
			}
			// only the ghost cells of the objects the loop's contracts name change
			h, ok := st.heap[w.key]
			if !ok {
				h = c.heapGet(prev, w.key, ls)
			}
			row := c.declare(w.key+"$row", "(Array Int "+ls+")")
			c.heapSet(st, w.key, ls, sx("store", h, w.ref, row))
		}
		c.note("loop %d at %s: body calls a function without contract; whole heap havocked at the head", li.ord, c.posString(loopPos(li)))
	} else {
		byKey := map[string][]writeRec{}
		writtenKeys := map[string]bool{}
		for _, w := range writes {
			writtenKeys[w.key] = true
		}
		var order []string
		for _, w := range writes {
			if _, ok := byKey[w.key]; !ok {
				order = append(order, w.key)
			}
			byKey[w.key] = append(byKey[w.key], w)
		}
		for _, key := range order {
			ws := byKey[key]
			full := false
			refs := []string{}
			for _, w := range ws {
				if w.full {
					full = true
				} else if dependsOnFresh(w.ref, startCtr) {
					// the base may be a value re-loaded inside the loop from a
					// field the loop never writes: express it over pre-loop terms
					if x, ok := c.expandFresh(w.ref, startCtr, writtenKeys); ok {
						w.ref = x
					} else {
						full = true
					}
				}
				dup := false
				for _, r := range refs {
					if r == w.ref {
						dup = true
					}
				}
				if !dup {
					refs = append(refs, w.ref)
				}
			}
			ls := c.heapSort[key]
			if ls == "" {
				continue
			}
			if full {
				st.heap[key] = c.declare(key+"$loop", c.heapSortOf(key))
				continue
			}
			h := c.heapGet(st, key, ls)
			for _, r := range refs {
				row := c.declare(key+"$row", "(Array Int "+ls+")")
				h = sx("store", h, r, row)
			}
			c.heapSet(st, key, ls, h)
		}
	}
	if wmChanged || epochChanged {
		nw := c.declare("wm", "Int")
		c.assume(st, sx(">=", nw, st.wm))
		st.wm = nw
	}
	newPhi := map[*ssa.Phi]Val{}
	for _, p := range phis {
		v := c.freshVal(st, p.Type(), phiName(p))
		if v.K == kSlice && entryPhi[p].K == kSlice && sliceRefStable(p, li) {
			// re-slicing never changes the object a slice points into
			v.Ref = entryPhi[p].Ref
			c.assumeWellTyped(st, v)
		}
		newPhi[p] = v
		fr.regs[p] = v
	}
	// 4. assume the invariants for the arbitrary iteration
	for _, cl := range clauses {
		if cl.Kind != "invariant" || cl.Canary {
			continue
		}
		c.assume(st, c.evalClause(fr, st, cl, li))
	}
	for _, a := range auto {
		c.assume(st, a.build(newPhi))
	}
	if fr.loopAuto == nil {
		fr.loopAuto = map[*loopInfo][]autoInv{}
	}
	fr.loopAuto[li] = auto
}

// sliceRefStable: every value the loop carries back into the slice phi p is
// p itself re-sliced (s = s[a:b]); the object it points into is then the
// one it had on entry, by construction.
func sliceRefStable(p *ssa.Phi, li *loopInfo) bool {
	if _, ok := p.Type().Underlying().(*types.Slice); !ok {
		return false
	}
	var derived func(v ssa.Value, depth int) bool
	derived = func(v ssa.Value, depth int) bool {
		if v == p {
			return true
		}
		if depth > 4 {
			return false
		}
		if s, ok := v.(*ssa.Slice); ok {
			if _, isSlice := s.X.Type().Underlying().(*types.Slice); isSlice {
				return derived(s.X, depth+1)
			}
		}
		return false
	}
	any := false
	for i, pr := range li.head.Preds {
		if !li.blocks[pr] {
			continue
		}
		any = true
		if !derived(p.Edges[i], 0) {
			return false
		}
	}
	return any
}

func rootOf(t types.Type) types.Type {
	if at, ok := t.Underlying().(*types.Array); ok {
		return at.Elem()
	}
	return t
}

// backEdge checks the invariants at the end of an iteration.
func (c *FnCtx) backEdge(fr *frame, li *loopInfo, from *ssa.BasicBlock, st *State) {
	if c.dry > 0 {
		return
	}
	clauses := c.loopClauses(fr, li)
	h := li.head
	pi := -1
	for k, pr := range h.Preds {
		if pr == from {
			pi = k
		}
	}
	saved := map[*ssa.Phi]Val{}
	next := map[*ssa.Phi]Val{}
	for _, in := range h.Instrs {
		p, ok := in.(*ssa.Phi)
		if !ok {
			break
		}
		next[p] = c.coerce(c.value(fr, p.Edges[pi]), p.Type())
	}
	for p, v := range next {
		saved[p] = fr.regs[p]
		_ = v
	}
	for p, v := range next {
		fr.regs[p] = v
	}
	where := fmt.Sprintf("loop %d", li.ord)
	for _, cl := range clauses {
		if cl.Kind != "invariant" {
			continue
		}
		t := c.evalClause(fr, st, cl, li)
		c.canaryNext = cl.Canary
		o := c.oblige(st, "inv-step", where+" invariant preserved", t, loopPos(li), cl.Text)
		if o != nil && cl.Canary {
			o.Canary = true
		}
	}
	for _, a := range fr.loopAuto[li] {
		c.oblige(st, "inv-step", where+" auto invariant preserved", a.build(next), loopPos(li), "auto:"+a.text)
	}
	for p, v := range saved {
		fr.regs[p] = v
	}
}

// autoInv is an invariant the engine proposes (and proves) by itself.
type autoInv struct {
	text  string
	build func(phis map[*ssa.Phi]Val) string
}

// autoInvariants: for an integer phi that starts at a literal (or any value)
// and only moves by a positive constant, "phi >= start" is proposed; the
// mirrored fact for downward counters.
func (c *FnCtx) autoInvariants(fr *frame, li *loopInfo, entryPhi map[*ssa.Phi]Val, phis []*ssa.Phi) []autoInv {
	var out []autoInv
	for _, p := range phis {
		if kindOf(p.Type()) != kInt {
			continue
		}
		start := entryPhi[p].S
		if dependsOnLoop(start) {
			continue
		}
		dir := 0
		okAll := true
		for i, pr := range li.head.Preds {
			if !li.blocks[pr] {
				continue
			}
			d := stepDir(p, p.Edges[i], 0)
			if d == 0 {
				okAll = false
				break
			}
			if dir != 0 && dir != d {
				okAll = false
				break
			}
			dir = d
		}
		if !okAll || dir == 0 {
			continue
		}
		pp := p
		st := start
		if _, lit := isNumLit(st); !lit && len(st) > 60 {
			continue
		}
		if dir > 0 {
			out = append(out, autoInv{text: phiName(pp) + ">=start", build: func(m map[*ssa.Phi]Val) string { return sx(">=", m[pp].S, st) }})
		} else {
			out = append(out, autoInv{text: phiName(pp) + "<=start", build: func(m map[*ssa.Phi]Val) string { return sx("<=", m[pp].S, st) }})
		}
	}
	return out
}

func dependsOnLoop(string) bool { return false }

// stepDir: +1 if v is phi plus a positive constant (through at most two adds), -1 if minus.
func stepDir(phi *ssa.Phi, v ssa.Value, depth int) int {
	if depth > 2 {
		return 0
	}
	b, ok := v.(*ssa.BinOp)
	if !ok {
		return 0
	}
	k, ok := b.Y.(*ssa.Const)
	if !ok || k.Value == nil || k.Value.Kind() != constant.Int {
		return 0
	}
	kv, _ := new(big.Int).SetString(k.Value.ExactString(), 10)
	if kv == nil || kv.Sign() <= 0 {
		return 0
	}
	// unsigned wrap would break monotonicity: only signed int counters
	if ii, ok := intInfoOf(phi.Type()); !ok || !ii.signed || ii.bits != 64 {
		return 0
	}
	inner := 0
	if b.X == ssa.Value(phi) {
		inner = 1
	} else if d := stepDir(phi, b.X, depth+1); d != 0 {
		switch b.Op {
		case token.ADD:
			if d > 0 {
				return 1
			}
		case token.SUB:
			if d < 0 {
				return -1
			}
		}
		return 0
	}
	if inner == 0 {
		return 0
	}
	switch b.Op {
	case token.ADD:
		return 1
	case token.SUB:
		return -1
	}
	return 0
}
