package main

// tryReplay: turn a solver model into a Go test against the real code.
func tryReplay(eng *Engine, o *Obligation, dir, name string) map[string]interface{} {
	return nil
}
