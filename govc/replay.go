package main

// Replay of a solver model against the real code: the model's parameter
// values (scalars, strings, slices, pointers to scalars / slices / arrays /
// structs, struct values) become a Go test that is injected into the package
// with `go test -overlay` (nothing is written to /repo).

import (
	"bytes"
	"context"
	"encoding/hex"
	"encoding/json"
	"fmt"
	"go/types"
	"math/big"
	"os"
	"os/exec"
	"path/filepath"
	"sort"
	"strings"
	"time"
)

// ---- tiny s-expression reader for (get-value ...) output ----

type sexp struct {
	atom string
	list []*sexp
}

func parseSexps(s string) []*sexp {
	var out []*sexp
	pos := 0
	var parse func() *sexp
	skip := func() {
		for pos < len(s) && (s[pos] == ' ' || s[pos] == '\n' || s[pos] == '\t' || s[pos] == '\r') {
			pos++
		}
	}
	parse = func() *sexp {
		skip()
		if pos >= len(s) {
			return nil
		}
		if s[pos] == '(' {
			pos++
			n := &sexp{}
			for {
				skip()
				if pos >= len(s) {
					return n
				}
				if s[pos] == ')' {
					pos++
					return n
				}
				c := parse()
				if c == nil {
					return n
				}
				n.list = append(n.list, c)
			}
		}
		if s[pos] == '|' {
			j := strings.IndexByte(s[pos+1:], '|')
			if j < 0 {
				pos = len(s)
				return nil
			}
			a := s[pos : pos+j+2]
			pos += j + 2
			return &sexp{atom: a}
		}
		st := pos
		for pos < len(s) && !strings.ContainsRune(" \n\t\r()", rune(s[pos])) {
			pos++
		}
		return &sexp{atom: s[st:pos]}
	}
	for {
		skip()
		if pos >= len(s) {
			break
		}
		if s[pos] == ')' {
			pos++
			continue
		}
		n := parse()
		if n == nil {
			break
		}
		out = append(out, n)
	}
	return out
}

func (x *sexp) String() string {
	if x.list == nil && x.atom != "" {
		return x.atom
	}
	var parts []string
	for _, c := range x.list {
		parts = append(parts, c.String())
	}
	return "(" + strings.Join(parts, " ") + ")"
}

func sexpInt(x *sexp) (*big.Int, bool) {
	if x == nil {
		return nil, false
	}
	if x.list == nil {
		n, ok := new(big.Int).SetString(x.atom, 10)
		return n, ok
	}
	if len(x.list) == 2 && x.list[0].atom == "-" {
		n, ok := sexpInt(x.list[1])
		if ok {
			return new(big.Int).Neg(n), true
		}
	}
	return nil, false
}

// getValues runs z3 on the query with (get-value terms) and returns term->value.
func getValues(queryFile string, extraAsserts []string, terms []string, dir, name string) (map[string]*sexp, bool) {
	b, err := os.ReadFile(queryFile)
	if err != nil {
		return nil, false
	}
	txt := string(b)
	i := strings.LastIndex(txt, "(check-sat)")
	if i < 0 {
		return nil, false
	}
	var sb strings.Builder
	sb.WriteString(txt[:i])
	for _, a := range extraAsserts {
		sb.WriteString("(assert " + a + ")\n")
	}
	sb.WriteString("(check-sat)\n(get-value (" + strings.Join(terms, "\n ") + "))\n")
	p := filepath.Join(dir, name+".gv.smt2")
	os.WriteFile(p, []byte(sb.String()), 0o644)
	ctx, cancel := context.WithTimeout(context.Background(), 30*time.Second)
	defer cancel()
	cmd := exec.CommandContext(ctx, "z3-new", "-T:8", p)
	var out bytes.Buffer
	cmd.Stdout = &out
	cmd.Stderr = &out
	cmd.Run()
	s := out.String()
	if !strings.HasPrefix(strings.TrimSpace(s), "sat") {
		return nil, false
	}
	rest := s[strings.Index(s, "sat")+3:]
	xs := parseSexps(rest)
	if len(xs) == 0 {
		return nil, false
	}
	res := map[string]*sexp{}
	for k, pair := range xs[0].list {
		if len(pair.list) == 2 && k < len(terms) {
			res[terms[k]] = pair.list[1]
		}
	}
	return res, true
}

// checkPinned asks whether the query stays satisfiable with extra
// constraints. With dropQuant, assumed facts that contain quantifiers are
// left out (the goal, which is the last assert, is kept).
func checkPinned(queryFile string, extra []string, dir, name string, dropQuant bool) string {
	return checkPinnedImpl(queryFile, extra, dir, name, dropQuant, true)
}

// checkPinnedNoGoal: the same without the negated goal (do the definitions,
// the inputs and the observed outputs agree at all?).
func checkPinnedNoGoal(queryFile string, extra []string, dir, name string) string {
	return checkPinnedImpl(queryFile, extra, dir, name, true, false)
}

// positiveGoal (set by checkPinnedPositive) turns the goal around: is the
// clause itself satisfiable under the pins?
var positiveGoal bool

func checkPinnedPositive(queryFile string, extra []string, dir, name string) string {
	positiveGoal = true
	defer func() { positiveGoal = false }()
	return checkPinnedImpl(queryFile, extra, dir, name, true, true)
}

func checkPinnedImpl(queryFile string, extra []string, dir, name string, dropQuant, keepGoal bool) string {
	b, err := os.ReadFile(queryFile)
	if err != nil {
		return "error"
	}
	txt := string(b)
	i := strings.LastIndex(txt, "(check-sat)")
	if i < 0 {
		return "error"
	}
	lines := strings.Split(txt[:i], "\n")
	goal := -1
	for k := len(lines) - 1; k >= 0; k-- {
		if strings.HasPrefix(lines[k], "(assert (not ") {
			goal = k
			break
		}
	}
	var sb strings.Builder
	for k, ln := range lines {
		if k == goal && !keepGoal {
			continue
		}
		if k == goal && positiveGoal {
			t := strings.TrimSpace(ln)
			if !strings.HasSuffix(t, "))") {
				return "error"
			}
			sb.WriteString("(assert " + t[len("(assert (not "):len(t)-2] + ")\n")
			continue
		}
		// contract-derived assumptions carry no :pattern; definitional axioms
		// (string rows, substrings, address model) do and are kept
		if dropQuant && k != goal && strings.HasPrefix(ln, "(assert ") && !strings.Contains(ln, ":pattern") && (strings.Contains(ln, "(forall ") || strings.Contains(ln, "(exists ")) {
			continue
		}
		sb.WriteString(ln)
		sb.WriteString("\n")
	}
	for _, a := range extra {
		sb.WriteString("(assert " + a + ")\n")
	}
	sb.WriteString("(check-sat)\n")
	p := filepath.Join(dir, name+".gv.smt2")
	os.WriteFile(p, []byte(sb.String()), 0o644)
	r := runOneNamed("z3-new", p, 6)
	return r.Status
}

// weakenedModel writes the query without quantified assumptions (goal kept)
// and reports whether z3 finds a model of it.
func weakenedModel(queryFile string) (string, bool) {
	// first keep the definitional axioms (those with :pattern), then drop them too
	if p, ok := weakenedModelLevel(queryFile, false); ok {
		return p, true
	}
	return weakenedModelLevel(queryFile, true)
}

func weakenedModelLevel(queryFile string, dropAxioms bool) (string, bool) {
	b, err := os.ReadFile(queryFile)
	if err != nil {
		return "", false
	}
	txt := string(b)
	i := strings.LastIndex(txt, "(check-sat)")
	if i < 0 {
		return "", false
	}
	lines := strings.Split(txt[:i], "\n")
	goal := -1
	for k := len(lines) - 1; k >= 0; k-- {
		if strings.HasPrefix(lines[k], "(assert (not ") {
			goal = k
			break
		}
	}
	dropped := 0
	var sb strings.Builder
	for k, ln := range lines {
		if k != goal && strings.HasPrefix(ln, "(assert ") && (strings.Contains(ln, "(forall ") || strings.Contains(ln, "(exists ")) && (dropAxioms || !strings.Contains(ln, ":pattern")) {
			dropped++
			continue
		}
		// arrays defined by lambda (copy, append, frames) keep z3 from
		// producing models: leave their contents open in this search query
		if strings.HasPrefix(ln, "(define-fun ") && strings.Contains(ln, " (lambda ((i Int)) ") {
			f := strings.Fields(ln)
			if j := strings.Index(ln, " (lambda "); j > 0 && len(f) > 2 {
				head := ln[len("(define-fun "):j] // name () sort
				parts := strings.SplitN(head, " () ", 2)
				if len(parts) == 2 {
					sb.WriteString("(declare-const " + parts[0] + " " + parts[1] + ")\n")
					dropped++
					continue
				}
			}
		}
		sb.WriteString(ln)
		sb.WriteString("\n")
	}
	if dropped == 0 {
		return "", false
	}
	sb.WriteString("(check-sat)\n(get-model)\n")
	suffix := ".weak.smt2"
	if dropAxioms {
		suffix = ".weak2.smt2"
	}
	p := strings.TrimSuffix(queryFile, ".smt2") + suffix
	if err := os.WriteFile(p, []byte(sb.String()), 0o644); err != nil {
		return "", false
	}
	r := runOneNamed("z3-new", p, 8)
	return p, r.Status == "sat"
}

type replayParam struct {
	Name string
	T    types.Type
	V    Val
}

const replayElems = 160 // elements of a slice / bytes of a string read back from the model

// entryHeap names the entry version of a heap key, or "" when the function
// never read that key at entry (its contents are then irrelevant).
func (c *FnCtx) entryHeap(key string) string {
	if _, ok := c.heapSort[key]; !ok {
		return ""
	}
	if t, ok := c.entry.ep.cache[key]; ok {
		return t
	}
	return ""
}

func safeReplay(eng *Engine, o *Obligation, dir, name string) (rec map[string]interface{}) {
	defer func() {
		if r := recover(); r != nil {
			rec = map[string]interface{}{"confirmed": false, "reason": fmt.Sprintf("replay construction failed: %v", r)}
		}
	}()
	return tryReplay(eng, o, dir, name)
}

// rb builds the Go values of one replay.
type rb struct {
	c      *FnCtx
	pkg    *types.Package
	terms  []string
	seen   map[string]bool
	vals   map[string]*sexp
	query  []byte
	fail   string
	lines  []string          // statements, in order
	ctr    int
	extent map[string]int64  // object key -> needed backing length
	backed map[string]string // object key -> backing variable
	cells  map[string]string // pointer object key -> variable holding the pointee
	strVar map[string]string // abstract string value / term -> Go expression
	strs   []string          // string terms seen
	small  []string          // smallness constraints
	inputs map[string]interface{}
	imports map[string]string
}

func (b *rb) want(t string) {
	if t == "" || b.seen[t] {
		return
	}
	// a heap constant that is not declared in the query cannot be evaluated
	for _, w := range strings.FieldsFunc(t, func(r rune) bool { return r == '(' || r == ')' || r == ' ' }) {
		if strings.HasPrefix(w, "H_") || strings.HasPrefix(w, "MD_") || strings.HasPrefix(w, "MV_") {
			if !bytes.Contains(b.query, []byte("declare-const "+w+" ")) && !bytes.Contains(b.query, []byte("define-fun "+w+" ")) {
				return
			}
		}
	}
	b.seen[t] = true
	b.terms = append(b.terms, t)
}

func (b *rb) cell(root types.Type, path []int, sort, ref, idx string) string {
	h := b.c.entryHeap(heapKey(root, path))
	if h == "" {
		return ""
	}
	return sx("select", sx("select", h, ref), idx)
}

// collect registers every term needed to rebuild a value of type t.
func (b *rb) collect(v Val, t types.Type, depth int) {
	if depth > 4 {
		return
	}
	switch v.K {
	case kInt:
		b.want(v.S)
		if depth == 0 {
			b.small = append(b.small, v.S)
		}
	case kBool:
		b.want(v.S)
	case kStr:
		b.want(v.S)
		b.want(sx("slen", v.S))
		for i := 0; i < replayElems; i++ {
			b.want(sx("sat", v.S, num(int64(i))))
		}
		b.strs = append(b.strs, v.S)
	case kSlice:
		b.want(v.Ref)
		b.want(v.Off)
		b.want(v.Len)
		b.want(v.Cap)
		el := v.Root
		if kindOf(el) == kInt || kindOf(el) == kBool || kindOf(el) == kStr {
			for i := 0; i < replayElems; i++ {
				ct := b.cell(el, nil, sortOf(el), v.Ref, add(v.Off, num(int64(i))))
				if ct != "" {
					b.collect(fromTerm(el, ct), el, depth+1)
				}
			}
		}
		if kindOf(el) == kStruct {
			for i := 0; i < 12; i++ {
				p := Val{K: kPtr, T: types.NewPointer(el), Ref: v.Ref, Idx: add(v.Off, num(int64(i))), Root: el}
				b.collectPointee(p, el, depth+1)
			}
		}
	case kPtr:
		b.want(v.Ref)
		b.want(v.Idx)
		if bg := b.bigvalTerm(v); bg != "" {
			b.want(bg) // *big.Int: rebuilt from its ghost value
			return
		}
		b.collectPointee(v, pointeeOfVal(v), depth)
	case kStruct:
		st := mustStruct(t)
		if types.TypeString(t, nil) == "time.Time" && len(v.Fields) >= 2 {
			b.want(sx("tns", v.Fields[0].S, v.Fields[1].S))
			return
		}
		for i, f := range v.Fields {
			b.collect(f, st.Field(i).Type(), depth+1)
		}
	}
}

// bigvalTerm: for a *math/big.Int, the term of its ghost value in the entry
// state ("" for any other pointer, or when the query never mentions it).
func (b *rb) bigvalTerm(v Val) string {
	if v.K != kPtr || types.TypeString(pointeeOfVal(v), nil) != "math/big.Int" {
		return ""
	}
	h := b.c.entryHeap("G_bigval")
	if h == "" {
		return ""
	}
	return sx("select", sx("select", h, v.Ref), "0")
}

// foreignField: a field the in-package test cannot set (unexported field of
// a struct type declared in another package).
func (b *rb) foreignField(t types.Type, f *types.Var) bool {
	if f.Exported() {
		return false
	}
	if n, ok := t.(*types.Named); ok && n.Obj().Pkg() != nil {
		return n.Obj().Pkg() != b.pkg
	}
	return f.Pkg() != nil && f.Pkg() != b.pkg
}

func (b *rb) collectPointee(p Val, pt types.Type, depth int) {
	switch u := pt.Underlying().(type) {
	case *types.Array:
		el := u.Elem()
		if kindOf(el) == kInt || kindOf(el) == kBool {
			n := u.Len()
			if n > 256 {
				n = 256
			}
			for i := int64(0); i < n; i++ {
				ct := b.cell(el, nil, sortOf(el), p.Ref, add(p.Idx, num(i)))
				if ct != "" {
					b.collect(fromTerm(el, ct), el, depth+1)
				}
			}
		}
	case *types.Struct:
		for i := 0; i < u.NumFields(); i++ {
			ft := u.Field(i).Type()
			fp := b.c.fieldAddr(Val{K: kPtr, T: types.NewPointer(pt), Ref: p.Ref, Idx: p.Idx, Root: p.Root, Path: p.Path}, i, types.NewPointer(ft))
			switch ft.Underlying().(type) {
			case *types.Array, *types.Struct:
				b.collectPointee(fp, ft, depth+1)
			default:
				if kindOf(ft) == kFunc || kindOf(ft) == kIface || kindOf(ft) == kMap || kindOf(ft) == kOpaque {
					continue
				}
				ct := b.cell(fp.Root, fp.Path, sortOf(ft), fp.Ref, fp.Idx)
				if ct != "" {
					b.collect(fromTerm(ft, ct), ft, depth+1)
				}
			}
		}
	default:
		k := kindOf(pt)
		if k == kInt || k == kBool || k == kStr || k == kSlice || k == kPtr {
			ct := b.cell(p.Root, p.Path, sortOf(pt), p.Ref, p.Idx)
			if ct != "" {
				b.collect(fromTerm(pt, ct), pt, depth+1)
			}
		}
	}
}

func (b *rb) intv(t string) (int64, bool) {
	n, ok := sexpInt(b.vals[t])
	if !ok || !n.IsInt64() {
		return 0, false
	}
	return n.Int64(), true
}

func (b *rb) qual(t types.Type) string {
	return types.TypeString(t, func(p *types.Package) string {
		if p == b.pkg {
			return ""
		}
		if b.imports == nil {
			b.imports = map[string]string{}
		}
		b.imports[p.Path()] = p.Name()
		return p.Name()
	})
}

func (b *rb) newVar(prefix string) string {
	b.ctr++
	return fmt.Sprintf("%s%d", prefix, b.ctr)
}

func (b *rb) stmt(format string, a ...interface{}) {
	b.lines = append(b.lines, "\t"+fmt.Sprintf(format, a...))
}

// strExpr: Go expression for a string term. Equal abstract values yield the
// same Go string; distinct abstract values with equal contents are kept
// distinct by falling back to unique names (identity matters more).
func (b *rb) strExpr(term string) string {
	if e, ok := b.strVar[term]; ok {
		return e
	}
	return `""`
}

func (b *rb) resolveStrings() {
	byAbs := map[string]string{}
	content := map[string]string{}
	collide := false
	for _, t := range b.strs {
		abs := "?"
		if v, ok := b.vals[t]; ok {
			abs = v.String()
		}
		var bs []byte
		if n, ok := b.intv(sx("slen", t)); ok && n >= 0 {
			if n > replayElems {
				n = replayElems
			}
			for j := int64(0); j < n; j++ {
				ch := byte('a')
				if cv, ok := b.intv(sx("sat", t, num(j))); ok {
					ch = byte(cv)
				}
				bs = append(bs, ch)
			}
		}
		if prev, ok := byAbs[abs]; ok && prev != string(bs) {
			collide = true
		}
		for a2, c2 := range byAbs {
			if a2 != abs && c2 == string(bs) {
				collide = true
			}
		}
		byAbs[abs] = string(bs)
		content[t] = string(bs)
	}
	for _, t := range b.strs {
		if collide {
			abs := "?"
			if v, ok := b.vals[t]; ok {
				abs = v.String()
			}
			b.strVar[t] = fmt.Sprintf("%q", "v_"+sanitize(abs))
		} else {
			b.strVar[t] = fmt.Sprintf("%q", content[t])
		}
	}
}

func objKey(ref int64, el types.Type) string { return fmt.Sprintf("%d/%s", ref, typeName(el)) }

// scan computes the extent each shared object needs.
func (b *rb) scan(v Val, t types.Type, depth int) {
	if depth > 4 {
		return
	}
	switch v.K {
	case kSlice:
		ref, _ := b.intv(v.Ref)
		off, _ := b.intv(v.Off)
		cp, _ := b.intv(v.Cap)
		if ref != 0 {
			k := objKey(ref, v.Root)
			if off+cp > b.extent[k] {
				b.extent[k] = off + cp
			}
		}
	case kStruct:
		st := mustStruct(t)
		for i, f := range v.Fields {
			b.scan(f, st.Field(i).Type(), depth+1)
		}
	case kPtr:
		pt := pointeeOfVal(v)
		if kindOf(pt) == kSlice {
			ct := b.cell(v.Root, v.Path, "Slice", v.Ref, v.Idx)
			if ct != "" {
				b.scan(fromTerm(pt, ct), pt, depth+1)
			}
		}
		if ref, _ := b.intv(v.Ref); ref != 0 {
			b.scanPointee(v, pt, depth+1)
		}
	}
}

// scanPointee: slices held in the fields of a pointed-to struct share
// backing objects with other inputs; their extents count too.
func (b *rb) scanPointee(p Val, pt types.Type, depth int) {
	u, ok := pt.Underlying().(*types.Struct)
	if !ok || depth > 4 {
		return
	}
	for i := 0; i < u.NumFields(); i++ {
		ft := u.Field(i).Type()
		if b.foreignField(pt, u.Field(i)) {
			continue
		}
		fp := b.c.fieldAddr(Val{K: kPtr, T: types.NewPointer(pt), Ref: p.Ref, Idx: p.Idx, Root: p.Root, Path: p.Path}, i, types.NewPointer(ft))
		switch ft.Underlying().(type) {
		case *types.Struct:
			b.scanPointee(fp, ft, depth+1)
			continue
		case *types.Array:
			continue
		}
		switch kindOf(ft) {
		case kSlice, kPtr:
			if ct := b.cell(fp.Root, fp.Path, sortOf(ft), fp.Ref, fp.Idx); ct != "" {
				b.scan(fromTerm(ft, ct), ft, depth+1)
			}
		}
	}
}

// expr builds the Go expression of a value.
func (b *rb) expr(v Val, t types.Type, depth int) string {
	if b.fail != "" {
		return "nil"
	}
	if depth > 4 {
		return b.zeroExpr(t)
	}
	switch v.K {
	case kInt:
		n, ok := sexpInt(b.vals[v.S])
		if !ok {
			n = big.NewInt(0)
		}
		return fmt.Sprintf("%s(%s)", b.qual(t), n.String())
	case kBool:
		if x, ok := b.vals[v.S]; ok && x.atom == "true" {
			return b.qual(t) + "(true)"
		}
		return b.qual(t) + "(false)"
	case kStr:
		return fmt.Sprintf("%s(%s)", b.qual(t), b.strExpr(v.S))
	case kSlice:
		ref, _ := b.intv(v.Ref)
		if ref == 0 {
			return fmt.Sprintf("%s(nil)", b.qual(t))
		}
		off, _ := b.intv(v.Off)
		ln, _ := b.intv(v.Len)
		cp, _ := b.intv(v.Cap)
		if cp > 1<<16 || off > 1<<16 || ln < 0 || cp < ln {
			b.fail = "slice too large to build"
			return "nil"
		}
		el := v.Root
		k := objKey(ref, el)
		bk, ok := b.backed[k]
		if !ok {
			bk = b.newVar("bk")
			b.backed[k] = bk
			ext := b.extent[k]
			if ext < off+cp {
				ext = off + cp
			}
			b.stmt("%s := make([]%s, %d)", bk, b.qual(el), ext)
		}
		if kindOf(el) == kInt || kindOf(el) == kBool || kindOf(el) == kStr {
			for i := int64(0); i < cp && i < replayElems; i++ {
				ct := b.cell(el, nil, sortOf(el), v.Ref, add(v.Off, num(i)))
				if ct == "" || !b.seen[ct] && kindOf(el) != kStr {
					continue
				}
				ev := b.expr(fromTerm(el, ct), el, depth+1)
				if ev != b.zeroExpr(el) {
					b.stmt("%s[%d] = %s", bk, off+i, ev)
				}
			}
		}
		if kindOf(el) == kStruct {
			for i := int64(0); i < cp && i < 12; i++ {
				p := Val{K: kPtr, T: types.NewPointer(el), Ref: v.Ref, Idx: add(v.Off, num(i)), Root: el}
				b.stmt("%s[%d] = %s", bk, off+i, b.pointeeExpr(p, el, depth+1))
			}
		}
		return fmt.Sprintf("%s(%s[%d:%d:%d])", b.qual(t), bk, off, off+ln, off+cp)
	case kStruct:
		st := mustStruct(t)
		if types.TypeString(t, nil) == "time.Time" && len(v.Fields) >= 2 {
			ns, _ := b.intv(sx("tns", v.Fields[0].S, v.Fields[1].S))
			b.qual(t) // records the import
			return fmt.Sprintf("time.Unix(0, %d).UTC()", ns)
		}
		var fs []string
		for i, f := range v.Fields {
			ft := st.Field(i).Type()
			if b.foreignField(t, st.Field(i)) {
				continue
			}
			switch kindOf(ft) {
			case kFunc, kIface, kMap, kOpaque:
				if e := b.c.con.ReplayFields[st.Field(i).Name()]; e != "" {
					fs = append(fs, fmt.Sprintf("%s: %s", st.Field(i).Name(), e))
				}
				continue
			}
			fs = append(fs, fmt.Sprintf("%s: %s", st.Field(i).Name(), b.expr(f, ft, depth+1)))
		}
		return fmt.Sprintf("%s{%s}", b.qual(t), strings.Join(fs, ", "))
	case kArray:
		return b.zeroExpr(t)
	case kPtr:
		ref, _ := b.intv(v.Ref)
		if ref == 0 {
			return fmt.Sprintf("(%s)(nil)", b.qual(t))
		}
		idx, _ := b.intv(v.Idx)
		pt := pointeeOfVal(v)
		if bg := b.bigvalTerm(v); bg != "" {
			n, ok := sexpInt(b.vals[bg])
			if !ok {
				n = big.NewInt(0)
			}
			k := fmt.Sprintf("%d/big", ref)
			cv, seen := b.cells[k]
			if !seen {
				cv = b.newVar("big")
				b.cells[k] = cv
				b.qual(pt) // records the math/big import
				b.stmt("%s, _ := new(big.Int).SetString(%q, 10)", cv, n.String())
			}
			return cv
		}
		k := fmt.Sprintf("%d/%d/%s", ref, idx, typeName(pt))
		cv, ok := b.cells[k]
		if !ok {
			cv = b.newVar("cell")
			b.cells[k] = cv
			b.stmt("var %s %s = %s", cv, b.qual(pt), b.pointeeExpr(v, pt, depth+1))
		}
		return fmt.Sprintf("(%s)(&%s)", b.qual(t), cv)
	}
	b.fail = fmt.Sprintf("value of kind %d cannot be rebuilt", v.K)
	return "nil"
}

func (b *rb) zeroExpr(t types.Type) string {
	switch kindOf(t) {
	case kInt:
		return fmt.Sprintf("%s(0)", b.qual(t))
	case kBool:
		return fmt.Sprintf("%s(false)", b.qual(t))
	case kStr:
		return fmt.Sprintf("%s(\"\")", b.qual(t))
	case kStruct, kArray:
		return b.qual(t) + "{}"
	case kSlice:
		return fmt.Sprintf("%s(nil)", b.qual(t))
	case kPtr:
		return fmt.Sprintf("(%s)(nil)", b.qual(t))
	}
	return "nil"
}

// pointeeExpr: value stored at pointer p (type pt) in the entry heap.
func (b *rb) pointeeExpr(p Val, pt types.Type, depth int) string {
	switch u := pt.Underlying().(type) {
	case *types.Array:
		el := u.Elem()
		if kindOf(el) != kInt && kindOf(el) != kBool {
			return b.zeroExpr(pt)
		}
		var es []string
		n := u.Len()
		for i := int64(0); i < n && i < 256; i++ {
			ct := b.cell(el, nil, sortOf(el), p.Ref, add(p.Idx, num(i)))
			if ct == "" {
				es = append(es, b.zeroExpr(el))
				continue
			}
			es = append(es, b.expr(fromTerm(el, ct), el, depth+1))
		}
		return fmt.Sprintf("%s{%s}", b.qual(pt), strings.Join(es, ", "))
	case *types.Struct:
		var fs []string
		for i := 0; i < u.NumFields(); i++ {
			ft := u.Field(i).Type()
			if b.foreignField(pt, u.Field(i)) {
				continue
			}
			fp := b.c.fieldAddr(Val{K: kPtr, T: types.NewPointer(pt), Ref: p.Ref, Idx: p.Idx, Root: p.Root, Path: p.Path}, i, types.NewPointer(ft))
			var fe string
			switch ft.Underlying().(type) {
			case *types.Array, *types.Struct:
				fe = b.pointeeExpr(fp, ft, depth+1)
			default:
				switch kindOf(ft) {
				case kFunc, kIface, kMap, kOpaque:
					if e := b.c.con.ReplayFields[u.Field(i).Name()]; e != "" {
						fs = append(fs, fmt.Sprintf("%s: %s", u.Field(i).Name(), e))
					}
					continue
				}
				ct := b.cell(fp.Root, fp.Path, sortOf(ft), fp.Ref, fp.Idx)
				if ct == "" {
					continue
				}
				fe = b.expr(fromTerm(ft, ct), ft, depth+1)
			}
			fs = append(fs, fmt.Sprintf("%s: %s", u.Field(i).Name(), fe))
		}
		return fmt.Sprintf("%s{%s}", b.qual(pt), strings.Join(fs, ", "))
	}
	ct := b.cell(p.Root, p.Path, sortOf(pt), p.Ref, p.Idx)
	if ct == "" {
		return b.zeroExpr(pt)
	}
	return b.expr(fromTerm(pt, ct), pt, depth)
}

// panicMatches: does the observed panic message fit the obligation kind?
func panicMatches(kind, out string) bool {
	i := strings.Index(out, "GOVC-REPLAY panic:")
	if i < 0 {
		return false
	}
	msg := out[i:]
	if j := strings.Index(msg, "\n"); j >= 0 {
		msg = msg[:j]
	}
	has := func(ss ...string) bool {
		for _, s := range ss {
			if strings.Contains(msg, s) {
				return true
			}
		}
		return false
	}
	switch kind {
	case "bounds":
		return has("out of range", "out of bounds")
	case "nil":
		return has("nil pointer dereference", "nil map")
	case "div":
		return has("divide by zero")
	case "conv":
		return has("interface conversion")
	}
	return true
}

// tryReplay builds and runs the test for a failed obligation with a model.
func tryReplay(eng *Engine, o *Obligation, dir, name string) map[string]interface{} {
	c := o.ctx
	if c == nil || o.queryFile == "" {
		return nil
	}
	fn := c.fn
	if fn.Pkg == nil {
		return nil
	}
	qb, _ := os.ReadFile(o.queryFile)
	b := &rb{c: c, pkg: fn.Pkg.Pkg, seen: map[string]bool{}, query: qb, extent: map[string]int64{}, backed: map[string]string{}, cells: map[string]string{}, strVar: map[string]string{}, inputs: map[string]interface{}{}}
	saved := c.quiet
	c.quiet = true
	defer func() { c.quiet = saved }()
	for _, p := range c.replayParams {
		switch p.V.K {
		case kFunc, kIface, kOpaque, kMap:
			if c.con.ReplayArgs[p.Name] == "" {
				return map[string]interface{}{"confirmed": false, "reason": fmt.Sprintf("parameter %s (%s) needs a replay_arg stand-in", p.Name, p.T)}
			}
			continue
		}
		b.collect(p.V, p.T, 0)
	}
	if len(b.terms) == 0 {
		b.terms = append(b.terms, "0")
	}
	// prefer small models: progressively weaker size limits
	ok := false
	var usedSmall []string
	for _, lim := range []int64{4, 16, replayElems, 4096, 1 << 20, 0} {
		var small []string
		if lim > 0 {
			for _, t := range b.terms {
				switch {
				case strings.HasPrefix(t, "(scap ") || strings.HasPrefix(t, "(soff ") || strings.HasPrefix(t, "(slen "):
					small = append(small, sx("<=", t, num(lim)))
				}
			}
			for _, t := range b.small {
				small = append(small, and(sx("<=", num(-lim), t), sx("<=", t, num(lim))))
			}
		}
		b.vals, ok = getValues(o.queryFile, append(append(small, c.replayAssume...), o.pins...), b.terms, dir, name+".1")
		if ok {
			usedSmall = small
			break
		}
	}
	if !ok {
		return map[string]interface{}{"confirmed": false, "reason": "model values could not be read back"}
	}
	// Strings are abstract values in the model: try to make strings with
	// equal contents equal values (so that content-based Go strings agree
	// with the model's equalities).
	for round := 0; round < 3; round++ {
		var merge []string
		byContent := map[string]string{}
		for _, t := range b.strs {
			v := b.vals[t]
			if v == nil {
				continue
			}
			n, okn := b.intv(sx("slen", t))
			if !okn || n > 24 {
				continue
			}
			key := fmt.Sprint(n)
			for j := int64(0); j < n; j++ {
				cv, _ := b.intv(sx("sat", t, num(j)))
				key += fmt.Sprintf(",%d", cv)
			}
			if prev, seen := byContent[key]; seen {
				if b.vals[prev] != nil && b.vals[prev].String() != v.String() {
					merge = append(merge, eq(prev, t))
				}
			} else {
				byContent[key] = t
			}
		}
		if len(merge) == 0 {
			break
		}
		usedSmall = append(usedSmall, merge...)
		nv, ok2 := getValues(o.queryFile, append(append(append([]string{}, usedSmall...), c.replayAssume...), o.pins...), b.terms, dir, name+".1s")
		if !ok2 {
			break
		}
		b.vals = nv
	}
	b.resolveStrings()
	for _, p := range c.replayParams {
		b.scan(p.V, p.T, 0)
	}
	var args []string
	for _, p := range c.replayParams {
		vn := "a_" + sanitize(p.Name)
		switch p.V.K {
		case kFunc, kIface, kOpaque, kMap:
			b.stmt("%s := %s", vn, c.con.ReplayArgs[p.Name])
			b.inputs[p.Name] = c.con.ReplayArgs[p.Name]
		default:
			e := b.expr(p.V, p.T, 0)
			b.stmt("var %s %s = %s", vn, b.qual(p.T), e)
			b.inputs[p.Name] = e
		}
		args = append(args, vn)
	}
	if b.fail != "" {
		return map[string]interface{}{"confirmed": false, "reason": b.fail}
	}
	// pins: every concrete value read back
	var pins []string
	for _, t := range b.terms {
		if v, ok := b.vals[t]; ok && !strings.Contains(v.String(), "!val!") && t != "0" {
			pins = append(pins, eq(t, v.String()))
		}
	}
	for i := 0; i < len(b.strs); i++ {
		for j := i + 1; j < len(b.strs); j++ {
			x, y := b.vals[b.strs[i]], b.vals[b.strs[j]]
			if x == nil || y == nil || b.strs[i] == b.strs[j] {
				continue
			}
			if x.String() == y.String() {
				pins = append(pins, eq(b.strs[i], b.strs[j]))
			} else {
				pins = append(pins, not(eq(b.strs[i], b.strs[j])))
			}
		}
	}
	// a candidate taken from a weakened query (quantified assumptions left
	// out) or from concrete guesses must still satisfy everything the
	// function assumes, quantified preconditions included
	if full := o.fullQuery; o.weakened && full != "" || len(o.pins) > 0 {
		if full == "" || !o.weakened {
			full = o.queryFile
		}
		if st := checkPinnedImpl(full, pins, dir, name+".pre", false, false); st == "unsat" {
			return map[string]interface{}{"confirmed": false, "inputs": b.inputs, "reason": "the candidate input violates a precondition (or another assumed fact) of the function"}
		}
	}
	// the call
	call := fn.Name() + "(" + strings.Join(args, ", ") + ")"
	if fn.Signature.Recv() != nil && len(args) > 0 {
		call = args[0] + "." + fn.Name() + "(" + strings.Join(args[1:], ", ") + ")"
	}
	callStmt := "\tres := govcWrap(" + call + ")\n"
	if fn.Signature.Results().Len() == 0 {
		callStmt = "\t" + call + "\n\tvar res []interface{}\n"
	}
	var outs strings.Builder
	for i, p := range c.replayParams {
		if p.V.K == kPtr {
			fmt.Fprintf(&outs, "\tif %s != nil {\n\t\tfmt.Printf(\"GOVC-OUT %d %%s\\n\", govcFmt(*%s))\n\t}\n", args[i], i, args[i])
		}
		if p.V.K == kSlice {
			fmt.Fprintf(&outs, "\tfmt.Printf(\"GOVC-OUT %d %%s\\n\", govcFmt(%s))\n", i, args[i])
		}
	}
	imports := ""
	for _, im := range c.con.ReplayImports {
		imports += fmt.Sprintf("\t%q\n", im)
		delete(b.imports, im)
	}
	var ipaths []string
	for p := range b.imports {
		ipaths = append(ipaths, p)
	}
	sort.Strings(ipaths)
	for _, p := range ipaths {
		if p == "fmt" || p == "reflect" || p == "testing" {
			continue
		}
		imports += fmt.Sprintf("\t%s %q\n", b.imports[p], p)
	}
	src := fmt.Sprintf(replayTemplate, fn.Pkg.Pkg.Name(), imports, strings.Join(b.lines, "\n")+"\n", callStmt, outs.String())
	rec := runReplayTest(fn.Pkg.Pkg.Path(), src, dir, name)
	rec["inputs"] = b.inputs
	out, _ := rec["output"].(string)
	panicked := strings.Contains(out, "GOVC-REPLAY panic:")
	returned := strings.Contains(out, "GOVC-REPLAY returned normally")
	if !panicked && !returned {
		rec["confirmed"] = false
		rec["reason"] = "the replay test did not run to completion (build error or fatal error); see output"
		return rec
	}
	switch o.Kind {
	case "bounds", "nil", "div", "panic", "pre-panic", "conv":
		rec["confirmed"] = panicked && panicMatches(o.Kind, out)
		if panicked && !panicMatches(o.Kind, out) {
			rec["reason"] = "the real code panicked, but not with the kind of run-time error this obligation excludes (the input may not satisfy the preconditions)"
		}
		if !panicked && returned {
			rec["reason"] = "the real code returned normally on the model's input (the failed obligation is reported without a failing input)"
		}
	case "post":
		rec["confirmed"] = false
		if panicked {
			rec["reason"] = "the real code panicked on the model's input (no result to evaluate the clause on)"
			break
		}
		// pin the inputs and the observed scalar results: if the negated
		// clause is still satisfiable the real outcome violates the clause;
		// if it is unsatisfiable the engine's model of the code disagrees
		// with the real execution (tool error, not a violation).
		var obs []string
		for _, ln := range strings.Split(out, "\n") {
			var idx int
			var val string
			if n, _ := fmt.Sscanf(ln, "GOVC-RESULT %d %s", &idx, &val); n == 2 && idx < len(c.resultVals) {
				obs = append(obs, b.observe(c.resultVals[idx], val)...)
			}
			// slice parameters as the real code left them (contents only)
			if n, _ := fmt.Sscanf(ln, "GOVC-OUT %d %s", &idx, &val); n == 2 && idx < len(c.replayParams) {
				if pv := c.replayParams[idx].V; pv.K == kSlice && strings.HasPrefix(val, "bytes:") {
					for _, ob := range b.observe(pv, val) {
						if strings.Contains(ob, "select") {
							obs = append(obs, ob)
						}
					}
				}
			}
		}
		// The definitions of the prefix, the pinned inputs and the observed
		// outputs determine the clause; assumed facts with quantifiers are
		// left out of this query so that the solver can answer "sat".
		stOut := checkPinned(o.queryFile, append(append([]string{}, pins...), obs...), dir, name+".out", true)
		rec["observed_constraints"] = obs
		switch stOut {
		case "sat":
			// is the clause decided by what was observed? If it can also hold
			// under the same pins (uninterpreted spec functions, state that
			// cannot be observed from outside), nothing is confirmed.
			if stPos := checkPinnedPositive(o.queryFile, append(append([]string{}, pins...), obs...), dir, name+".pos"); stPos != "unsat" {
				rec["reason"] = "the observed outcome does not determine the clause (it mentions uninterpreted spec functions or state that is not observable from outside); the failed obligation is reported without a failing input"
				break
			}
			rec["confirmed"] = true
			rec["reason"] = "with the inputs and the observed results fixed, the negated clause is satisfiable: the real outcome violates the clause"
		case "unsat":
			stIn := checkPinned(o.queryFile, pins, dir, name+".in", true)
			if stIn == "sat" {
				// the clause fails in the engine's execution of this input but
				// not with the outputs the real code produced
				stAgree := checkPinnedNoGoal(o.queryFile, append(append([]string{}, pins...), obs...), dir, name+".agree")
				if stAgree == "unsat" {
					rec["reason"] = "ENGINE-MISMATCH: the real code's results differ from the engine's symbolic result on this input"
					rec["engine_mismatch"] = true
				} else {
					rec["reason"] = "the real outcome satisfies the clause on this input (the model relied on an over-approximation)"
				}
			} else {
				rec["reason"] = "the pinned model could not be re-established"
			}
		default:
			rec["reason"] = "the solver could not evaluate the clause on the observed outcome (" + stOut + ")"
		}
	default:
		rec["confirmed"] = false
		rec["reason"] = "invariant-type obligation: inputs replayed, outcome recorded; an intermediate state cannot be observed from outside"
	}
	return rec
}

// observe turns one printed result into constraints on the engine's result value.
func (b *rb) observe(rv Val, val string) []string {
	var obs []string
	switch {
	case strings.HasPrefix(val, "int:") && rv.K == kInt:
		if n, ok := new(big.Int).SetString(val[4:], 10); ok {
			obs = append(obs, eq(rv.S, bigNum(n)))
		}
	case strings.HasPrefix(val, "bool:") && rv.K == kBool:
		obs = append(obs, eq(rv.S, val[5:]))
	case strings.HasPrefix(val, "string:") && rv.K == kStr:
		parts := strings.SplitN(val, ":", 3)
		if len(parts) == 3 {
			raw, _ := hex.DecodeString(parts[2])
			matched := false
			want := fmt.Sprintf("%q", string(raw))
			for _, el := range b.strs {
				if b.strVar[el] == want {
					obs = append(obs, eq(rv.S, el))
					matched = true
					break
				}
			}
			if !matched {
				obs = append(obs, eq(sx("slen", rv.S), num(int64(len(raw)))))
				for _, el := range b.strs {
					obs = append(obs, not(eq(rv.S, el)))
				}
			}
		}
	case val == "nil" && (rv.K == kIface || rv.K == kMap):
		obs = append(obs, eq(rv.S, "0"))
	case val == "nonnil" && (rv.K == kIface || rv.K == kMap):
		obs = append(obs, not(eq(rv.S, "0")))
	case val == "nil" && rv.K == kPtr:
		obs = append(obs, eq(rv.Ref, "0"))
	case val == "nonnil" && rv.K == kPtr:
		obs = append(obs, not(eq(rv.Ref, "0")))
	case val == "nilslice" && rv.K == kSlice:
		obs = append(obs, eq(rv.Ref, "0"))
	case (strings.HasPrefix(val, "bytes:") || strings.HasPrefix(val, "slice:")) && rv.K == kSlice:
		var ln2 int
		fmt.Sscanf(val[6:], "%d", &ln2)
		obs = append(obs, eq(rv.Len, num(int64(ln2))), not(eq(rv.Ref, "0")))
		// contents of a byte slice as the real code left them
		if strings.HasPrefix(val, "bytes:") && b.c.exitState != nil {
			parts := strings.SplitN(val, ":", 3)
			if len(parts) == 3 {
				raw, _ := hex.DecodeString(parts[2])
				key := heapKey(rv.Root, nil)
				if _, used := b.c.heapSort[key]; used {
					h := b.c.heapGet(b.c.exitState, key, "Int")
					for i := 0; i < len(raw) && i < 96; i++ {
						obs = append(obs, eq(sx("select", sx("select", h, rv.Ref), add(rv.Off, num(int64(i)))), num(int64(raw[i]))))
					}
				}
			}
		}
	}
	return obs
}

const replayTemplate = `package %s

import (
	"fmt"
	"reflect"
	"testing"
%s)

func TestGovcReplay(t *testing.T) {
	defer func() {
		if r := recover(); r != nil {
			fmt.Printf("GOVC-REPLAY panic: %%v\n", r)
		} else {
			fmt.Println("GOVC-REPLAY returned normally")
		}
	}()
%s%s	for i, r := range res {
		fmt.Printf("GOVC-RESULT %%d %%s\n", i, govcFmt(r))
	}
%s}

func govcWrap(rs ...interface{}) []interface{} { return rs }

func govcFmt(r interface{}) string {
	if r == nil {
		return "nil"
	}
	v := reflect.ValueOf(r)
	switch v.Kind() {
	case reflect.Int, reflect.Int8, reflect.Int16, reflect.Int32, reflect.Int64:
		return fmt.Sprintf("int:%%d", v.Int())
	case reflect.Uint, reflect.Uint8, reflect.Uint16, reflect.Uint32, reflect.Uint64, reflect.Uintptr:
		return fmt.Sprintf("int:%%d", v.Uint())
	case reflect.Bool:
		return fmt.Sprintf("bool:%%t", v.Bool())
	case reflect.String:
		return fmt.Sprintf("string:%%d:%%x", v.Len(), v.String())
	case reflect.Slice:
		if v.IsNil() {
			return "nilslice"
		}
		if v.Type().Elem().Kind() == reflect.Uint8 {
			return fmt.Sprintf("bytes:%%d:%%x", v.Len(), v.Bytes())
		}
		return fmt.Sprintf("slice:%%d", v.Len())
	case reflect.Ptr, reflect.Interface, reflect.Map, reflect.Func, reflect.Chan:
		if v.IsNil() {
			return "nil"
		}
		return "nonnil"
	}
	return "other"
}
`

func runReplayTest(pkgPath, src, dir, name string) map[string]interface{} {
	rel := strings.TrimPrefix(strings.TrimPrefix(pkgPath, modPath), "/")
	pkgDir := filepath.Join(repoRoot, rel)
	testFile := filepath.Join(dir, name+"_test.go.txt")
	os.WriteFile(testFile, []byte(src), 0o644)
	ov := map[string]map[string]string{"Replace": {filepath.Join(pkgDir, "zz_govc_replay_test.go"): testFile}}
	ob, _ := json.Marshal(ov)
	ovFile := filepath.Join(dir, name+".overlay.json")
	os.WriteFile(ovFile, ob, 0o644)
	ctx, cancel := context.WithTimeout(context.Background(), 180*time.Second)
	defer cancel()
	cmdline := []string{"test", "-overlay", ovFile, "-vet=off", "-count=1", "-timeout", "60s", "-run", "^TestGovcReplay$", "-v", "."}
	cmd := exec.CommandContext(ctx, "go", cmdline...)
	cmd.Dir = pkgDir
	cmd.Env = append(os.Environ(), "GOFLAGS=-mod=mod")
	var out bytes.Buffer
	cmd.Stdout = &out
	cmd.Stderr = &out
	cmd.Run()
	o := out.String()
	if len(o) > 4000 {
		o = o[:4000]
	}
	return map[string]interface{}{"test_source": src, "test_file": testFile, "package": pkgPath, "command": "cd " + pkgDir + " && go " + strings.Join(cmdline, " "), "output": o}
}

// replayFile re-runs the test stored in a replay record.
func replayFile(path string) int {
	b, err := os.ReadFile(path)
	if err != nil {
		fmt.Println(err)
		return 2
	}
	var rec map[string]interface{}
	if err := json.Unmarshal(b, &rec); err != nil {
		fmt.Println(err)
		return 2
	}
	fmt.Printf("obligation %v (%v) at %v\n  clause: %v\n  solver: %v by %v\n", rec["obligation"], rec["kind"], rec["at"], rec["clause"], rec["status"], rec["backend"])
	rp, _ := rec["replay"].(map[string]interface{})
	if rp == nil {
		fmt.Println("no replayable input was recorded for this obligation")
		return 0
	}
	src, _ := rp["test_source"].(string)
	pkg, _ := rp["package"].(string)
	if src == "" {
		fmt.Println("no test source recorded:", rp["reason"])
		return 0
	}
	var keys []string
	if in, ok := rp["inputs"].(map[string]interface{}); ok {
		for k := range in {
			keys = append(keys, k)
		}
		sort.Strings(keys)
		for _, k := range keys {
			fmt.Printf("  input %s = %v\n", k, in[k])
		}
	}
	dir := filepath.Join(filepath.Dir(path), "rerun")
	os.MkdirAll(dir, 0o755)
	r := runReplayTest(pkg, src, dir, "rerun")
	fmt.Println(r["command"])
	fmt.Println(r["output"])
	if strings.Contains(r["output"].(string), "GOVC-REPLAY panic:") {
		return 1
	}
	return 0
}
