package main

// Replay of a solver model against the real code: the model's parameter
// values become a Go test that is injected into the package with
// `go test -overlay` (nothing is written to /repo).

import (
	"bytes"
	"context"
	"encoding/hex"
	"encoding/json"
	"fmt"
	"go/types"
	"math/big"
	"os"
	"os/exec"
	"path/filepath"
	"strings"
	"time"
)

// ---- tiny s-expression reader for (get-value ...) output ----

type sexp struct {
	atom string
	list []*sexp
}

func parseSexps(s string) []*sexp {
	var out []*sexp
	pos := 0
	var parse func() *sexp
	skip := func() {
		for pos < len(s) && (s[pos] == ' ' || s[pos] == '\n' || s[pos] == '\t' || s[pos] == '\r') {
			pos++
		}
	}
	parse = func() *sexp {
		skip()
		if pos >= len(s) {
			return nil
		}
		if s[pos] == '(' {
			pos++
			n := &sexp{}
			for {
				skip()
				if pos >= len(s) {
					return n
				}
				if s[pos] == ')' {
					pos++
					return n
				}
				c := parse()
				if c == nil {
					return n
				}
				n.list = append(n.list, c)
			}
		}
		if s[pos] == '|' {
			j := strings.IndexByte(s[pos+1:], '|')
			if j < 0 {
				pos = len(s)
				return nil
			}
			a := s[pos : pos+j+2]
			pos += j + 2
			return &sexp{atom: a}
		}
		st := pos
		for pos < len(s) && !strings.ContainsRune(" \n\t\r()", rune(s[pos])) {
			pos++
		}
		return &sexp{atom: s[st:pos]}
	}
	for {
		skip()
		if pos >= len(s) {
			break
		}
		if s[pos] == ')' {
			pos++
			continue
		}
		n := parse()
		if n == nil {
			break
		}
		out = append(out, n)
	}
	return out
}

func (x *sexp) String() string {
	if x.list == nil && x.atom != "" {
		return x.atom
	}
	var parts []string
	for _, c := range x.list {
		parts = append(parts, c.String())
	}
	return "(" + strings.Join(parts, " ") + ")"
}

func sexpInt(x *sexp) (*big.Int, bool) {
	if x == nil {
		return nil, false
	}
	if x.list == nil {
		n, ok := new(big.Int).SetString(x.atom, 10)
		return n, ok
	}
	if len(x.list) == 2 && x.list[0].atom == "-" {
		n, ok := sexpInt(x.list[1])
		if ok {
			return new(big.Int).Neg(n), true
		}
	}
	return nil, false
}

// getValues runs z3 on the query with (get-value terms) and returns term->value.
func getValues(queryFile string, extraAsserts []string, terms []string, dir, name string) (map[string]*sexp, bool) {
	b, err := os.ReadFile(queryFile)
	if err != nil {
		return nil, false
	}
	txt := string(b)
	i := strings.LastIndex(txt, "(check-sat)")
	if i < 0 {
		return nil, false
	}
	var sb strings.Builder
	sb.WriteString(txt[:i])
	for _, a := range extraAsserts {
		sb.WriteString("(assert " + a + ")\n")
	}
	sb.WriteString("(check-sat)\n(get-value (" + strings.Join(terms, " ") + "))\n")
	p := filepath.Join(dir, name+".gv.smt2")
	os.WriteFile(p, []byte(sb.String()), 0o644)
	ctx, cancel := context.WithTimeout(context.Background(), 30*time.Second)
	defer cancel()
	cmd := exec.CommandContext(ctx, "z3-new", "-T:25", p)
	var out bytes.Buffer
	cmd.Stdout = &out
	cmd.Stderr = &out
	cmd.Run()
	s := out.String()
	if !strings.HasPrefix(strings.TrimSpace(s), "sat") {
		return nil, false
	}
	rest := s[strings.Index(s, "sat")+3:]
	xs := parseSexps(rest)
	if len(xs) == 0 {
		return nil, false
	}
	res := map[string]*sexp{}
	for k, pair := range xs[0].list {
		if len(pair.list) == 2 && k < len(terms) {
			res[terms[k]] = pair.list[1]
		}
	}
	return res, true
}

type replayParam struct {
	Name string
	T    types.Type
	V    Val
}

const maxReplayElems = 1 << 16

// entryHeap names the entry version of a heap key, or a constant that does
// not occur in any query when the function never touched that key.
func (c *FnCtx) entryHeap(key string) string {
	if _, ok := c.heapSort[key]; !ok {
		return "H_unused_" + key
	}
	if t, ok := c.entry.ep.cache[key]; ok {
		return t
	}
	return "H_unused_" + key
}

func safeReplay(eng *Engine, o *Obligation, dir, name string) (rec map[string]interface{}) {
	defer func() {
		if r := recover(); r != nil {
			rec = map[string]interface{}{"confirmed": false, "reason": fmt.Sprintf("replay construction failed: %v", r)}
		}
	}()
	return tryReplay(eng, o, dir, name)
}

// tryReplay builds and runs the test. Only functions whose parameters are
// integers, booleans, strings, slices of integers and pointers to arrays of
// integers are replayed; anything else yields no replay.
func tryReplay(eng *Engine, o *Obligation, dir, name string) map[string]interface{} {
	c := o.ctx
	if c == nil || o.queryFile == "" || len(c.replayParams) == 0 && len(c.fn.Params) > 0 {
		return nil
	}
	fn := c.fn
	if fn.Signature.Recv() != nil || fn.Pkg == nil {
		return map[string]interface{}{"confirmed": false, "reason": "methods are not replayed automatically"}
	}
	// pass 1: scalars and slice headers
	var terms []string
	for _, p := range c.replayParams {
		switch p.V.K {
		case kInt, kBool:
			terms = append(terms, p.V.S)
		case kStr:
			terms = append(terms, sx("slen", p.V.S))
		case kSlice:
			terms = append(terms, p.V.Ref, p.V.Off, p.V.Len, p.V.Cap)
		case kPtr:
			terms = append(terms, p.V.Ref)
		case kFunc, kIface, kOpaque, kMap:
			// passed as a fixed stand-in below
		default:
			return map[string]interface{}{"confirmed": false, "reason": fmt.Sprintf("parameter %s of unsupported kind", p.Name)}
		}
	}
	if len(terms) == 0 {
		terms = append(terms, "0")
	}
	// prefer small models: try progressively weaker size limits
	var vals map[string]*sexp
	ok := false
	for _, lim := range []int64{64, 4096, 1 << 20, 0} {
		var small []string
		if lim > 0 {
			for _, p := range c.replayParams {
				switch p.V.K {
				case kInt:
					small = append(small, and(sx("<=", num(-lim), p.V.S), sx("<=", p.V.S, num(lim))))
				case kSlice:
					small = append(small, sx("<=", p.V.Cap, num(lim)), sx("<=", p.V.Off, num(lim)))
				case kStr:
					small = append(small, sx("<=", sx("slen", p.V.S), num(lim)))
				}
			}
		}
		vals, ok = getValues(o.queryFile, small, terms, dir, name+".1")
		if ok {
			break
		}
	}
	if !ok {
		return map[string]interface{}{"confirmed": false, "reason": "model values could not be read back"}
	}
	var pins []string
	for _, t := range terms {
		if v, ok := vals[t]; ok {
			pins = append(pins, eq(t, v.String()))
		}
	}
	intOf := func(t string) (int64, bool) {
		n, ok := sexpInt(vals[t])
		if !ok || !n.IsInt64() {
			return 0, false
		}
		return n.Int64(), true
	}
	// pass 2: contents
	var terms2 []string
	var strElems []string
	type sliceInfo struct {
		ref, off, ln, cp int64
	}
	sinfo := map[string]sliceInfo{}
	for _, p := range c.replayParams {
		switch p.V.K {
		case kSlice:
			ref, _ := intOf(p.V.Ref)
			off, _ := intOf(p.V.Off)
			ln, ok1 := intOf(p.V.Len)
			cp, ok2 := intOf(p.V.Cap)
			if !ok1 || !ok2 || cp > maxReplayElems {
				return map[string]interface{}{"confirmed": false, "reason": fmt.Sprintf("slice %s too large to build (cap %v)", p.Name, vals[p.V.Cap])}
			}
			sinfo[p.Name] = sliceInfo{ref, off, ln, cp}
			if ref != 0 {
				key := heapKey(p.V.Root, nil)
				h := c.entryHeap(key)
				for i := int64(0); i < cp; i++ {
					el := sx("select", sx("select", h, p.V.Ref), add(p.V.Off, num(i)))
					terms2 = append(terms2, el)
					if kindOf(p.V.Root) == kStr {
						terms2 = append(terms2, sx("slen", el))
						strElems = append(strElems, el)
					}
				}
			}
		case kStr:
			ln, ok1 := intOf(sx("slen", p.V.S))
			if !ok1 || ln > maxReplayElems {
				return map[string]interface{}{"confirmed": false, "reason": "string too large"}
			}
			for i := int64(0); i < ln; i++ {
				terms2 = append(terms2, sx("sat", p.V.S, num(i)))
			}
		case kPtr:
			if at, ok := pointee(p.V).Underlying().(*types.Array); ok {
				key := heapKey(at.Elem(), nil)
				h := c.entryHeap(key)
				for i := int64(0); i < at.Len(); i++ {
					terms2 = append(terms2, sx("select", sx("select", h, p.V.Ref), num(i)))
				}
			} else {
				return map[string]interface{}{"confirmed": false, "reason": "pointer parameter to non-array"}
			}
		}
	}
	vals2 := map[string]*sexp{}
	if len(terms2) > 0 {
		// the heap constants may not be declared in the prefix if never used; guard by checking the text
		qb, _ := os.ReadFile(o.queryFile)
		var usable []string
		for _, t := range terms2 {
			okT := true
			for _, w := range strings.FieldsFunc(t, func(r rune) bool { return r == '(' || r == ')' || r == ' ' }) {
				if strings.HasPrefix(w, "H_") && !bytes.Contains(qb, []byte("declare-const "+w+" ")) && !bytes.Contains(qb, []byte("define-fun "+w+" ")) {
					okT = false
				}
			}
			if okT {
				usable = append(usable, t)
			}
		}
		if len(usable) > 0 {
			v2, ok := getValues(o.queryFile, pins, usable, dir, name+".2")
			if ok {
				vals2 = v2
			}
		}
	}
	// pass 3: characters of string elements (strings are abstract values in
	// the model: equal abstract values must become equal Go strings)
	strOf := map[string]string{}
	if len(strElems) > 0 {
		var terms3 []string
		for _, el := range strElems {
			if n, ok := sexpInt(vals2[sx("slen", el)]); ok && n.IsInt64() && n.Int64() <= 64 {
				for j := int64(0); j < n.Int64(); j++ {
					terms3 = append(terms3, sx("sat", el, num(j)))
				}
			}
		}
		pins2 := append([]string{}, pins...)
		for t, v := range vals2 {
			if !strings.Contains(v.String(), "!val!") {
				pins2 = append(pins2, eq(t, v.String()))
			}
		}
		vals3 := map[string]*sexp{}
		if len(terms3) > 0 {
			if v3, ok := getValues(o.queryFile, pins2, terms3, dir, name+".3"); ok {
				vals3 = v3
			}
		}
		byAbs := map[string]string{}
		content := map[string]string{}
		collide := false
		for _, el := range strElems {
			abs := ""
			if v, ok := vals2[el]; ok {
				abs = v.String()
			}
			var bs []byte
			if n, ok := sexpInt(vals2[sx("slen", el)]); ok && n.IsInt64() && n.Int64() <= 64 {
				for j := int64(0); j < n.Int64(); j++ {
					ch := byte('a')
					if cv, ok := sexpInt(vals3[sx("sat", el, num(j))]); ok && cv.IsInt64() {
						ch = byte(cv.Int64())
					}
					bs = append(bs, ch)
				}
			}
			if prev, ok := byAbs[abs]; ok && prev != string(bs) {
				collide = true
			}
			byAbs[abs] = string(bs)
			for a2, c2 := range byAbs {
				if a2 != abs && c2 == string(bs) {
					collide = true
				}
			}
			content[el] = string(bs)
		}
		for _, el := range strElems {
			if collide {
				abs := "?"
				if v, ok := vals2[el]; ok {
					abs = v.String()
				}
				strOf[el] = "v_" + sanitize(abs)
			} else {
				strOf[el] = content[el]
			}
		}
	}
	elem := func(t string) string {
		if s, ok := strOf[t]; ok {
			return fmt.Sprintf("%q", s)
		}
		if v, ok := vals2[t]; ok {
			if n, ok := sexpInt(v); ok {
				return n.String()
			}
		}
		return "0"
	}
	// build the test
	var body strings.Builder
	var args []string
	inputs := map[string]interface{}{}
	qual := func(t types.Type) string {
		return types.TypeString(t, func(p *types.Package) string {
			if p == fn.Pkg.Pkg {
				return ""
			}
			return p.Name()
		})
	}
	backing := map[int64]string{}
	for _, p := range c.replayParams {
		vn := "a_" + sanitize(p.Name)
		switch p.V.K {
		case kInt:
			n, _ := sexpInt(vals[p.V.S])
			if n == nil {
				n = big.NewInt(0)
			}
			fmt.Fprintf(&body, "\tvar %s %s = %s\n", vn, qual(p.T), n.String())
			inputs[p.Name] = n.String()
		case kBool:
			b := "false"
			if v, ok := vals[p.V.S]; ok && v.atom == "true" {
				b = "true"
			}
			fmt.Fprintf(&body, "\tvar %s %s = %s\n", vn, qual(p.T), b)
			inputs[p.Name] = b
		case kStr:
			ln, _ := intOf(sx("slen", p.V.S))
			var bs []string
			for i := int64(0); i < ln; i++ {
				bs = append(bs, elem(sx("sat", p.V.S, num(i))))
			}
			fmt.Fprintf(&body, "\tvar %s %s = %s(string([]byte{%s}))\n", vn, qual(p.T), qual(p.T), strings.Join(bs, ","))
			inputs[p.Name] = bs
		case kSlice:
			si := sinfo[p.Name]
			if si.ref == 0 {
				fmt.Fprintf(&body, "\tvar %s %s\n", vn, qual(p.T))
				inputs[p.Name] = nil
				break
			}
			key := heapKey(p.V.Root, nil)
			h := c.entryHeap(key)
			var es []string
			for i := int64(0); i < si.cp; i++ {
				es = append(es, elem(sx("select", sx("select", h, p.V.Ref), add(p.V.Off, num(i)))))
			}
			bk, shared := backing[si.ref]
			et := qual(p.V.Root)
			if !shared {
				// backing array covers [0, off+cap)
				bk = "bk_" + sanitize(p.Name)
				fmt.Fprintf(&body, "\t%s := make([]%s, %d)\n", bk, et, si.off+si.cp)
				backing[si.ref] = bk
			}
			fmt.Fprintf(&body, "\tif len(%s) < %d { %s = append(%s, make([]%s, %d-len(%s))...) }\n", bk, si.off+si.cp, bk, bk, et, si.off+si.cp, bk)
			fmt.Fprintf(&body, "\tcopy(%s[%d:], []%s{%s})\n", bk, si.off, et, strings.Join(es, ","))
			fmt.Fprintf(&body, "\tvar %s %s = %s[%d:%d:%d]\n", vn, qual(p.T), bk, si.off, si.off+si.ln, si.off+si.cp)
			inputs[p.Name] = map[string]interface{}{"len": si.ln, "cap": si.cp, "off": si.off, "obj": si.ref, "elems": es}
		case kPtr:
			at := pointee(p.V).Underlying().(*types.Array)
			key := heapKey(at.Elem(), nil)
			h := c.entryHeap(key)
			var es []string
			for i := int64(0); i < at.Len(); i++ {
				es = append(es, elem(sx("select", sx("select", h, p.V.Ref), num(i))))
			}
			ref, _ := intOf(p.V.Ref)
			if ref == 0 {
				fmt.Fprintf(&body, "\tvar %s %s\n", vn, qual(p.T))
			} else {
				fmt.Fprintf(&body, "\t%s := &%s{%s}\n", vn, qual(pointee(p.V)), strings.Join(es, ","))
			}
			inputs[p.Name] = es
		case kFunc, kIface, kOpaque, kMap:
			stand := c.con.ReplayArgs[p.Name]
			if stand == "" {
				return map[string]interface{}{"confirmed": false, "reason": fmt.Sprintf("parameter %s needs a replay_arg stand-in", p.Name), "inputs": inputs}
			}
			fmt.Fprintf(&body, "\t%s := %s\n", vn, stand)
			inputs[p.Name] = stand
		}
		args = append(args, vn)
	}
	pkgName := fn.Pkg.Pkg.Name()
	imports := ""
	for _, im := range c.con.ReplayImports {
		imports += fmt.Sprintf("\t%q\n", im)
	}
	call := fn.Name() + "(" + strings.Join(args, ", ") + ")"
	callStmt := "\tres := govcWrap(" + call + ")\n"
	if fn.Signature.Results().Len() == 0 {
		callStmt = "\t" + call + "\n\tvar res []interface{}\n"
	}
	src := fmt.Sprintf(`package %s

import (
	"fmt"
	"reflect"
	"testing"
%s)

func TestGovcReplay(t *testing.T) {
	defer func() {
		if r := recover(); r != nil {
			fmt.Printf("GOVC-REPLAY panic: %%v\n", r)
		} else {
			fmt.Println("GOVC-REPLAY returned normally")
		}
	}()
%s%s	for i, r := range res {
		fmt.Printf("GOVC-RESULT %%d %%s\n", i, govcFmt(r))
	}
}

func govcWrap(rs ...interface{}) []interface{} { return rs }

func govcFmt(r interface{}) string {
	if r == nil {
		return "nil"
	}
	v := reflect.ValueOf(r)
	switch v.Kind() {
	case reflect.Int, reflect.Int8, reflect.Int16, reflect.Int32, reflect.Int64:
		return fmt.Sprintf("int:%%d", v.Int())
	case reflect.Uint, reflect.Uint8, reflect.Uint16, reflect.Uint32, reflect.Uint64, reflect.Uintptr:
		return fmt.Sprintf("int:%%d", v.Uint())
	case reflect.Bool:
		return fmt.Sprintf("bool:%%t", v.Bool())
	case reflect.String:
		return fmt.Sprintf("string:%%d:%%x", v.Len(), v.String())
	case reflect.Slice:
		if v.IsNil() {
			return "nilslice"
		}
		if v.Type().Elem().Kind() == reflect.Uint8 {
			return fmt.Sprintf("bytes:%%d:%%x", v.Len(), v.Bytes())
		}
		return fmt.Sprintf("slice:%%d", v.Len())
	case reflect.Ptr, reflect.Interface, reflect.Map, reflect.Func, reflect.Chan:
		if v.IsNil() {
			return "nil"
		}
		return "nonnil"
	}
	return "other"
}
`, pkgName, imports, body.String(), callStmt)
	rec := runReplayTest(fn.Pkg.Pkg.Path(), src, dir, name)
	rec["inputs"] = inputs
	out, _ := rec["output"].(string)
	panicked := strings.Contains(out, "GOVC-REPLAY panic:")
	returned := strings.Contains(out, "GOVC-REPLAY returned normally")
	switch o.Kind {
	case "bounds", "nil", "div", "panic", "pre-panic", "conv":
		rec["confirmed"] = panicked
		if !panicked && returned {
			rec["reason"] = "the real code returned normally on the model's input (the failed obligation is reported without a failing input)"
		}
	case "post":
		rec["confirmed"] = false
		if panicked {
			rec["reason"] = "the real code panicked on the model's input (no result to evaluate the clause on)"
			break
		}
		// pin the inputs and the observed scalar results: if the negated
		// clause is still satisfiable the real outcome violates the clause;
		// if it is unsatisfiable the engine's model of the code disagrees
		// with the real execution (tool error, not a violation).
		var obs []string
		for _, ln := range strings.Split(out, "\n") {
			var idx int
			var val string
			if n, _ := fmt.Sscanf(ln, "GOVC-RESULT %d %s", &idx, &val); n == 2 && idx < len(c.resultVals) {
				rv := c.resultVals[idx]
				switch {
				case strings.HasPrefix(val, "int:") && rv.K == kInt:
					n, ok := new(big.Int).SetString(val[4:], 10)
					if ok {
						obs = append(obs, eq(rv.S, bigNum(n)))
					}
				case strings.HasPrefix(val, "string:") && rv.K == kStr:
					// identify the observed string with an input string element when possible
					parts := strings.SplitN(val, ":", 3)
					if len(parts) == 3 {
						raw, _ := hex.DecodeString(parts[2])
						matched := false
						for _, el := range strElems {
							if strOf[el] == string(raw) {
								obs = append(obs, eq(rv.S, el))
								matched = true
								break
							}
						}
						if !matched {
							obs = append(obs, eq(sx("slen", rv.S), num(int64(len(raw)))))
							for _, el := range strElems {
								obs = append(obs, not(eq(rv.S, el)))
							}
						}
					}
				case strings.HasPrefix(val, "bool:") && rv.K == kBool:
					obs = append(obs, eq(rv.S, val[5:]))
				case val == "nil" && (rv.K == kIface || rv.K == kMap):
					obs = append(obs, eq(rv.S, "0"))
				case val == "nonnil" && (rv.K == kIface || rv.K == kMap):
					obs = append(obs, not(eq(rv.S, "0")))
				case val == "nil" && rv.K == kPtr:
					obs = append(obs, eq(rv.Ref, "0"))
				case val == "nilslice" && rv.K == kSlice:
					obs = append(obs, eq(rv.Ref, "0"))
				case (strings.HasPrefix(val, "bytes:") || strings.HasPrefix(val, "slice:")) && rv.K == kSlice:
					var ln2 int
					fmt.Sscanf(val[6:], "%d", &ln2)
					obs = append(obs, eq(rv.Len, num(int64(ln2))))
				}
			}
		}
		pins2 := append([]string{}, pins...)
		for t, v := range vals2 {
			if !strings.Contains(v.String(), "!val!") {
				pins2 = append(pins2, eq(t, v.String()))
			}
		}
		for i := 0; i < len(strElems); i++ {
			for j := i + 1; j < len(strElems); j++ {
				a, b := vals2[strElems[i]], vals2[strElems[j]]
				if a == nil || b == nil {
					continue
				}
				if a.String() == b.String() {
					pins2 = append(pins2, eq(strElems[i], strElems[j]))
				} else {
					pins2 = append(pins2, not(eq(strElems[i], strElems[j])))
				}
			}
		}
		_, okIn := getValues(o.queryFile, pins2, []string{"0"}, dir, name+".in")
		_, okOut := getValues(o.queryFile, append(pins2, obs...), []string{"0"}, dir, name+".out")
		rec["observed_constraints"] = obs
		switch {
		case okOut:
			rec["confirmed"] = true
			rec["reason"] = "with the inputs and the observed results fixed, the negated clause is still satisfiable: the real outcome violates the clause"
		case okIn:
			rec["reason"] = "ENGINE-MISMATCH: the real code's results differ from the engine's symbolic result on this input"
			rec["engine_mismatch"] = true
		default:
			rec["reason"] = "the pinned model could not be re-established"
		}
	default:
		rec["confirmed"] = false
		rec["reason"] = "invariant-type obligation: inputs replayed, outcome recorded; an intermediate state cannot be observed from outside"
	}
	return rec
}

func runReplayTest(pkgPath, src, dir, name string) map[string]interface{} {
	rel := strings.TrimPrefix(strings.TrimPrefix(pkgPath, modPath), "/")
	pkgDir := filepath.Join(repoRoot, rel)
	testFile := filepath.Join(dir, name+"_test.go.txt")
	os.WriteFile(testFile, []byte(src), 0o644)
	ov := map[string]map[string]string{"Replace": {filepath.Join(pkgDir, "zz_govc_replay_test.go"): testFile}}
	ob, _ := json.Marshal(ov)
	ovFile := filepath.Join(dir, name+".overlay.json")
	os.WriteFile(ovFile, ob, 0o644)
	ctx, cancel := context.WithTimeout(context.Background(), 180*time.Second)
	defer cancel()
	cmdline := []string{"test", "-overlay", ovFile, "-vet=off", "-count=1", "-timeout", "60s", "-run", "^TestGovcReplay$", "-v", "."}
	cmd := exec.CommandContext(ctx, "go", cmdline...)
	cmd.Dir = pkgDir
	cmd.Env = append(os.Environ(), "GOFLAGS=-mod=mod")
	var out bytes.Buffer
	cmd.Stdout = &out
	cmd.Stderr = &out
	cmd.Run()
	o := out.String()
	if len(o) > 4000 {
		o = o[:4000]
	}
	return map[string]interface{}{"test_source": src, "test_file": testFile, "package": pkgPath, "command": "cd " + pkgDir + " && go " + strings.Join(cmdline, " "), "output": o}
}

// replayFile re-runs the test stored in a replay record.
func replayFile(path string) int {
	b, err := os.ReadFile(path)
	if err != nil {
		fmt.Println(err)
		return 2
	}
	var rec map[string]interface{}
	if err := json.Unmarshal(b, &rec); err != nil {
		fmt.Println(err)
		return 2
	}
	fmt.Printf("obligation %v (%v) at %v\n  clause: %v\n  solver: %v by %v\n", rec["obligation"], rec["kind"], rec["at"], rec["clause"], rec["status"], rec["backend"])
	rp, _ := rec["replay"].(map[string]interface{})
	if rp == nil {
		fmt.Println("no replayable input was recorded for this obligation")
		return 0
	}
	src, _ := rp["test_source"].(string)
	pkg, _ := rp["package"].(string)
	if src == "" {
		fmt.Println("no test source recorded:", rp["reason"])
		return 0
	}
	dir := filepath.Join(filepath.Dir(path), "rerun")
	os.MkdirAll(dir, 0o755)
	r := runReplayTest(pkg, src, dir, "rerun")
	fmt.Println(r["command"])
	fmt.Println(r["output"])
	if strings.Contains(r["output"].(string), "GOVC-REPLAY panic:") {
		return 1
	}
	return 0
}
