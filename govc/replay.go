package main

// Replay of a solver model against the real code: the model's parameter
// values become a Go test that is injected into the package with
// `go test -overlay` (nothing is written to /repo).

import (
	"bytes"
	"context"
	"encoding/json"
	"fmt"
	"go/types"
	"math/big"
	"os"
	"os/exec"
	"path/filepath"
	"strings"
	"time"
)

// ---- tiny s-expression reader for (get-value ...) output ----

type sexp struct {
	atom string
	list []*sexp
}

func parseSexps(s string) []*sexp {
	var out []*sexp
	pos := 0
	var parse func() *sexp
	skip := func() {
		for pos < len(s) && (s[pos] == ' ' || s[pos] == '\n' || s[pos] == '\t' || s[pos] == '\r') {
			pos++
		}
	}
	parse = func() *sexp {
		skip()
		if pos >= len(s) {
			return nil
		}
		if s[pos] == '(' {
			pos++
			n := &sexp{}
			for {
				skip()
				if pos >= len(s) {
					return n
				}
				if s[pos] == ')' {
					pos++
					return n
				}
				c := parse()
				if c == nil {
					return n
				}
				n.list = append(n.list, c)
			}
		}
		if s[pos] == '|' {
			j := strings.IndexByte(s[pos+1:], '|')
			if j < 0 {
				pos = len(s)
				return nil
			}
			a := s[pos : pos+j+2]
			pos += j + 2
			return &sexp{atom: a}
		}
		st := pos
		for pos < len(s) && !strings.ContainsRune(" \n\t\r()", rune(s[pos])) {
			pos++
		}
		return &sexp{atom: s[st:pos]}
	}
	for {
		skip()
		if pos >= len(s) {
			break
		}
		if s[pos] == ')' {
			pos++
			continue
		}
		n := parse()
		if n == nil {
			break
		}
		out = append(out, n)
	}
	return out
}

func (x *sexp) String() string {
	if x.list == nil && x.atom != "" {
		return x.atom
	}
	var parts []string
	for _, c := range x.list {
		parts = append(parts, c.String())
	}
	return "(" + strings.Join(parts, " ") + ")"
}

func sexpInt(x *sexp) (*big.Int, bool) {
	if x == nil {
		return nil, false
	}
	if x.list == nil {
		n, ok := new(big.Int).SetString(x.atom, 10)
		return n, ok
	}
	if len(x.list) == 2 && x.list[0].atom == "-" {
		n, ok := sexpInt(x.list[1])
		if ok {
			return new(big.Int).Neg(n), true
		}
	}
	return nil, false
}

// getValues runs z3 on the query with (get-value terms) and returns term->value.
func getValues(queryFile string, extraAsserts []string, terms []string, dir, name string) (map[string]*sexp, bool) {
	b, err := os.ReadFile(queryFile)
	if err != nil {
		return nil, false
	}
	txt := string(b)
	i := strings.LastIndex(txt, "(check-sat)")
	if i < 0 {
		return nil, false
	}
	var sb strings.Builder
	sb.WriteString(txt[:i])
	for _, a := range extraAsserts {
		sb.WriteString("(assert " + a + ")\n")
	}
	sb.WriteString("(check-sat)\n(get-value (" + strings.Join(terms, " ") + "))\n")
	p := filepath.Join(dir, name+".gv.smt2")
	os.WriteFile(p, []byte(sb.String()), 0o644)
	ctx, cancel := context.WithTimeout(context.Background(), 30*time.Second)
	defer cancel()
	cmd := exec.CommandContext(ctx, "z3-new", "-T:25", p)
	var out bytes.Buffer
	cmd.Stdout = &out
	cmd.Stderr = &out
	cmd.Run()
	s := out.String()
	if !strings.HasPrefix(strings.TrimSpace(s), "sat") {
		return nil, false
	}
	rest := s[strings.Index(s, "sat")+3:]
	xs := parseSexps(rest)
	if len(xs) == 0 {
		return nil, false
	}
	res := map[string]*sexp{}
	for k, pair := range xs[0].list {
		if len(pair.list) == 2 && k < len(terms) {
			res[terms[k]] = pair.list[1]
		}
	}
	return res, true
}

type replayParam struct {
	Name string
	T    types.Type
	V    Val
}

const maxReplayElems = 1 << 16

// tryReplay builds and runs the test. Only functions whose parameters are
// integers, booleans, strings, slices of integers and pointers to arrays of
// integers are replayed; anything else yields no replay.
func tryReplay(eng *Engine, o *Obligation, dir, name string) map[string]interface{} {
	c := o.ctx
	if c == nil || o.queryFile == "" || len(c.replayParams) == 0 && len(c.fn.Params) > 0 {
		return nil
	}
	fn := c.fn
	if fn.Signature.Recv() != nil || fn.Pkg == nil {
		return map[string]interface{}{"confirmed": false, "reason": "methods are not replayed automatically"}
	}
	// pass 1: scalars and slice headers
	var terms []string
	for _, p := range c.replayParams {
		switch p.V.K {
		case kInt, kBool:
			terms = append(terms, p.V.S)
		case kStr:
			terms = append(terms, sx("slen", p.V.S))
		case kSlice:
			terms = append(terms, p.V.Ref, p.V.Off, p.V.Len, p.V.Cap)
		case kPtr:
			terms = append(terms, p.V.Ref)
		case kFunc, kIface, kOpaque, kMap:
			// passed as a fixed stand-in below
		default:
			return map[string]interface{}{"confirmed": false, "reason": fmt.Sprintf("parameter %s of unsupported kind", p.Name)}
		}
	}
	if len(terms) == 0 {
		terms = append(terms, "0")
	}
	// prefer small models: try progressively weaker size limits
	var vals map[string]*sexp
	ok := false
	for _, lim := range []int64{64, 4096, 1 << 20, 0} {
		var small []string
		if lim > 0 {
			for _, p := range c.replayParams {
				switch p.V.K {
				case kInt:
					small = append(small, and(sx("<=", num(-lim), p.V.S), sx("<=", p.V.S, num(lim))))
				case kSlice:
					small = append(small, sx("<=", p.V.Cap, num(lim)), sx("<=", p.V.Off, num(lim)))
				case kStr:
					small = append(small, sx("<=", sx("slen", p.V.S), num(lim)))
				}
			}
		}
		vals, ok = getValues(o.queryFile, small, terms, dir, name+".1")
		if ok {
			break
		}
	}
	if !ok {
		return map[string]interface{}{"confirmed": false, "reason": "model values could not be read back"}
	}
	var pins []string
	for _, t := range terms {
		if v, ok := vals[t]; ok {
			pins = append(pins, eq(t, v.String()))
		}
	}
	intOf := func(t string) (int64, bool) {
		n, ok := sexpInt(vals[t])
		if !ok || !n.IsInt64() {
			return 0, false
		}
		return n.Int64(), true
	}
	// pass 2: contents
	var terms2 []string
	type sliceInfo struct {
		ref, off, ln, cp int64
	}
	sinfo := map[string]sliceInfo{}
	for _, p := range c.replayParams {
		switch p.V.K {
		case kSlice:
			ref, _ := intOf(p.V.Ref)
			off, _ := intOf(p.V.Off)
			ln, ok1 := intOf(p.V.Len)
			cp, ok2 := intOf(p.V.Cap)
			if !ok1 || !ok2 || cp > maxReplayElems {
				return map[string]interface{}{"confirmed": false, "reason": fmt.Sprintf("slice %s too large to build (cap %v)", p.Name, vals[p.V.Cap])}
			}
			sinfo[p.Name] = sliceInfo{ref, off, ln, cp}
			if ref != 0 {
				key := heapKey(p.V.Root, nil)
				h := c.epochGet(c.entry.ep, key)
				for i := int64(0); i < cp; i++ {
					terms2 = append(terms2, sx("select", sx("select", h, p.V.Ref), add(p.V.Off, num(i))))
				}
			}
		case kStr:
			ln, ok1 := intOf(sx("slen", p.V.S))
			if !ok1 || ln > maxReplayElems {
				return map[string]interface{}{"confirmed": false, "reason": "string too large"}
			}
			for i := int64(0); i < ln; i++ {
				terms2 = append(terms2, sx("sat", p.V.S, num(i)))
			}
		case kPtr:
			if at, ok := pointee(p.V).Underlying().(*types.Array); ok {
				key := heapKey(at.Elem(), nil)
				h := c.epochGet(c.entry.ep, key)
				for i := int64(0); i < at.Len(); i++ {
					terms2 = append(terms2, sx("select", sx("select", h, p.V.Ref), num(i)))
				}
			} else {
				return map[string]interface{}{"confirmed": false, "reason": "pointer parameter to non-array"}
			}
		}
	}
	vals2 := map[string]*sexp{}
	if len(terms2) > 0 {
		// the heap constants may not be declared in the prefix if never used; guard by checking the text
		qb, _ := os.ReadFile(o.queryFile)
		var usable []string
		for _, t := range terms2 {
			okT := true
			for _, w := range strings.FieldsFunc(t, func(r rune) bool { return r == '(' || r == ')' || r == ' ' }) {
				if strings.HasPrefix(w, "H_") && !bytes.Contains(qb, []byte("declare-const "+w+" ")) && !bytes.Contains(qb, []byte("define-fun "+w+" ")) {
					okT = false
				}
			}
			if okT {
				usable = append(usable, t)
			}
		}
		if len(usable) > 0 {
			v2, ok := getValues(o.queryFile, pins, usable, dir, name+".2")
			if ok {
				vals2 = v2
			}
		}
	}
	elem := func(t string) string {
		if v, ok := vals2[t]; ok {
			if n, ok := sexpInt(v); ok {
				return n.String()
			}
		}
		return "0"
	}
	// build the test
	var body strings.Builder
	var args []string
	inputs := map[string]interface{}{}
	qual := func(t types.Type) string {
		return types.TypeString(t, func(p *types.Package) string {
			if p == fn.Pkg.Pkg {
				return ""
			}
			return p.Name()
		})
	}
	backing := map[int64]string{}
	for _, p := range c.replayParams {
		vn := "a_" + sanitize(p.Name)
		switch p.V.K {
		case kInt:
			n, _ := sexpInt(vals[p.V.S])
			if n == nil {
				n = big.NewInt(0)
			}
			fmt.Fprintf(&body, "\tvar %s %s = %s\n", vn, qual(p.T), n.String())
			inputs[p.Name] = n.String()
		case kBool:
			b := "false"
			if v, ok := vals[p.V.S]; ok && v.atom == "true" {
				b = "true"
			}
			fmt.Fprintf(&body, "\tvar %s %s = %s\n", vn, qual(p.T), b)
			inputs[p.Name] = b
		case kStr:
			ln, _ := intOf(sx("slen", p.V.S))
			var bs []string
			for i := int64(0); i < ln; i++ {
				bs = append(bs, elem(sx("sat", p.V.S, num(i))))
			}
			fmt.Fprintf(&body, "\tvar %s %s = %s(string([]byte{%s}))\n", vn, qual(p.T), qual(p.T), strings.Join(bs, ","))
			inputs[p.Name] = bs
		case kSlice:
			si := sinfo[p.Name]
			if si.ref == 0 {
				fmt.Fprintf(&body, "\tvar %s %s\n", vn, qual(p.T))
				inputs[p.Name] = nil
				break
			}
			key := heapKey(p.V.Root, nil)
			h := c.epochGet(c.entry.ep, key)
			var es []string
			for i := int64(0); i < si.cp; i++ {
				es = append(es, elem(sx("select", sx("select", h, p.V.Ref), add(p.V.Off, num(i)))))
			}
			bk, shared := backing[si.ref]
			et := qual(p.V.Root)
			if !shared {
				// backing array covers [0, off+cap)
				bk = "bk_" + sanitize(p.Name)
				fmt.Fprintf(&body, "\t%s := make([]%s, %d)\n", bk, et, si.off+si.cp)
				backing[si.ref] = bk
			}
			fmt.Fprintf(&body, "\tif len(%s) < %d { %s = append(%s, make([]%s, %d-len(%s))...) }\n", bk, si.off+si.cp, bk, bk, et, si.off+si.cp, bk)
			fmt.Fprintf(&body, "\tcopy(%s[%d:], []%s{%s})\n", bk, si.off, et, strings.Join(es, ","))
			fmt.Fprintf(&body, "\tvar %s %s = %s[%d:%d:%d]\n", vn, qual(p.T), bk, si.off, si.off+si.ln, si.off+si.cp)
			inputs[p.Name] = map[string]interface{}{"len": si.ln, "cap": si.cp, "off": si.off, "obj": si.ref, "elems": es}
		case kPtr:
			at := pointee(p.V).Underlying().(*types.Array)
			key := heapKey(at.Elem(), nil)
			h := c.epochGet(c.entry.ep, key)
			var es []string
			for i := int64(0); i < at.Len(); i++ {
				es = append(es, elem(sx("select", sx("select", h, p.V.Ref), num(i))))
			}
			ref, _ := intOf(p.V.Ref)
			if ref == 0 {
				fmt.Fprintf(&body, "\tvar %s %s\n", vn, qual(p.T))
			} else {
				fmt.Fprintf(&body, "\t%s := &%s{%s}\n", vn, qual(pointee(p.V)), strings.Join(es, ","))
			}
			inputs[p.Name] = es
		case kFunc, kIface, kOpaque, kMap:
			stand := c.con.ReplayArgs[p.Name]
			if stand == "" {
				return map[string]interface{}{"confirmed": false, "reason": fmt.Sprintf("parameter %s needs a replay_arg stand-in", p.Name), "inputs": inputs}
			}
			fmt.Fprintf(&body, "\t%s := %s\n", vn, stand)
			inputs[p.Name] = stand
		}
		args = append(args, vn)
	}
	pkgName := fn.Pkg.Pkg.Name()
	imports := ""
	for _, im := range c.con.ReplayImports {
		imports += fmt.Sprintf("\t%q\n", im)
	}
	src := fmt.Sprintf(`package %s

import (
	"fmt"
	"testing"
%s)

func TestGovcReplay(t *testing.T) {
	defer func() {
		if r := recover(); r != nil {
			fmt.Printf("GOVC-REPLAY panic: %%v\n", r)
		} else {
			fmt.Println("GOVC-REPLAY returned normally")
		}
	}()
%s	res := fmt.Sprint(func() []interface{} { return govcWrap(%s) }())
	if len(res) > 400 {
		res = res[:400]
	}
	fmt.Println("GOVC-REPLAY result:", res)
}

func govcWrap(rs ...interface{}) []interface{} { return rs }
`, pkgName, imports, body.String(), fn.Name()+"("+strings.Join(args, ", ")+")")
	if fn.Signature.Results().Len() == 0 {
		src = strings.Replace(src, "res := fmt.Sprint(func() []interface{} { return govcWrap("+fn.Name()+"("+strings.Join(args, ", ")+")) }())", fn.Name()+"("+strings.Join(args, ", ")+")\n\tres := \"\"", 1)
	}
	rec := runReplayTest(fn.Pkg.Pkg.Path(), src, dir, name)
	rec["inputs"] = inputs
	out, _ := rec["output"].(string)
	panicked := strings.Contains(out, "GOVC-REPLAY panic:")
	returned := strings.Contains(out, "GOVC-REPLAY returned normally")
	switch o.Kind {
	case "bounds", "nil", "div", "panic", "pre-panic", "conv":
		rec["confirmed"] = panicked
		if !panicked && returned {
			rec["reason"] = "the real code returned normally on the model's input (the failed obligation is reported without a failing input)"
		}
	default:
		rec["confirmed"] = false
		rec["reason"] = "postcondition-type obligation: inputs replayed, outcome recorded, truth of the clause on the outcome not evaluated"
	}
	return rec
}

func runReplayTest(pkgPath, src, dir, name string) map[string]interface{} {
	rel := strings.TrimPrefix(strings.TrimPrefix(pkgPath, modPath), "/")
	pkgDir := filepath.Join(repoRoot, rel)
	testFile := filepath.Join(dir, name+"_test.go.txt")
	os.WriteFile(testFile, []byte(src), 0o644)
	ov := map[string]map[string]string{"Replace": {filepath.Join(pkgDir, "zz_govc_replay_test.go"): testFile}}
	ob, _ := json.Marshal(ov)
	ovFile := filepath.Join(dir, name+".overlay.json")
	os.WriteFile(ovFile, ob, 0o644)
	ctx, cancel := context.WithTimeout(context.Background(), 180*time.Second)
	defer cancel()
	cmdline := []string{"test", "-overlay", ovFile, "-vet=off", "-count=1", "-timeout", "60s", "-run", "^TestGovcReplay$", "-v", "."}
	cmd := exec.CommandContext(ctx, "go", cmdline...)
	cmd.Dir = pkgDir
	cmd.Env = append(os.Environ(), "GOFLAGS=-mod=mod")
	var out bytes.Buffer
	cmd.Stdout = &out
	cmd.Stderr = &out
	cmd.Run()
	o := out.String()
	if len(o) > 4000 {
		o = o[:4000]
	}
	return map[string]interface{}{"test_source": src, "test_file": testFile, "package": pkgPath, "command": "cd " + pkgDir + " && go " + strings.Join(cmdline, " "), "output": o}
}

// replayFile re-runs the test stored in a replay record.
func replayFile(path string) int {
	b, err := os.ReadFile(path)
	if err != nil {
		fmt.Println(err)
		return 2
	}
	var rec map[string]interface{}
	if err := json.Unmarshal(b, &rec); err != nil {
		fmt.Println(err)
		return 2
	}
	fmt.Printf("obligation %v (%v) at %v\n  clause: %v\n  solver: %v by %v\n", rec["obligation"], rec["kind"], rec["at"], rec["clause"], rec["status"], rec["backend"])
	rp, _ := rec["replay"].(map[string]interface{})
	if rp == nil {
		fmt.Println("no replayable input was recorded for this obligation")
		return 0
	}
	src, _ := rp["test_source"].(string)
	pkg, _ := rp["package"].(string)
	if src == "" {
		fmt.Println("no test source recorded:", rp["reason"])
		return 0
	}
	dir := filepath.Join(filepath.Dir(path), "rerun")
	os.MkdirAll(dir, 0o755)
	r := runReplayTest(pkg, src, dir, "rerun")
	fmt.Println(r["command"])
	fmt.Println(r["output"])
	if strings.Contains(r["output"].(string), "GOVC-REPLAY panic:") {
		return 1
	}
	return 0
}
