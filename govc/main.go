package main

// govc — verification-condition generator for Go (go/ssa) with SMT back ends.
//
//   govc check -prop C16 -tier quick      run the check of one property
//   govc baseline -prop C16               record the currently undecided implicit obligations
//   govc dump -pkg ./xts -func mul2       print SSA
//   govc vc -func KEY                     print obligations of one function

import (
	"encoding/json"
	"flag"
	"fmt"
	"os"
	"path/filepath"
	"sort"
	"strconv"
	"strings"
	"time"

	"golang.org/x/tools/go/ssa"
)

type Baseline struct {
	Property  string   `json:"property"`
	Undecided []string `json:"undecided"`
	MinObls   int      `json:"min_obligations"`
	Functions []string `json:"functions"`
}

type KnownFinding struct {
	Property string `json:"property"`
	Key      string `json:"obligation_key"`
	What     string `json:"what"`
	Status   string `json:"status"` // open | fixed
	Commit   string `json:"commit,omitempty"`
	Witness  string `json:"witness,omitempty"`
}

func main() {
	if len(os.Args) < 2 {
		fmt.Fprintln(os.Stderr, "usage: govc check|baseline|dump|vc ...")
		os.Exit(2)
	}
	os.Setenv("PATH", "/opt/veriftools/go1.26.8/bin:"+os.Getenv("PATH"))
	os.Setenv("GOTOOLCHAIN", "local")
	os.Setenv("GOFLAGS", "-mod=mod")
	os.Setenv("GOPROXY", "off")
	os.Setenv("GOSUMDB", "off")
	cmd := os.Args[1]
	fs := flag.NewFlagSet(cmd, flag.ExitOnError)
	prop := fs.String("prop", "", "property id")
	tier := fs.String("tier", "quick", "quick|thorough")
	root := fs.String("root", "/verif", "verif root")
	pkgPat := fs.String("pkg", "", "package pattern (dump)")
	fnName := fs.String("func", "", "function")
	verbose := fs.Bool("v", false, "verbose")
	keep := fs.Bool("keep", false, "keep all query files")
	fs.Parse(os.Args[2:])
	switch cmd {
	case "dump":
		eng := newEngine(*root)
		if err := eng.loadPackages([]string{*pkgPat}); err != nil {
			fatal(err)
		}
		var names []string
		for n := range eng.funcs {
			names = append(names, n)
		}
		sort.Strings(names)
		for _, n := range names {
			if strings.HasSuffix(n, *fnName) && strings.Contains(n, modPath) {
				if !*verbose {
					eng.funcs[n].WriteTo(os.Stdout)
				}
				c := &FnCtx{eng: eng, fn: eng.funcs[n]}
				fr := &frame{fn: eng.funcs[n], regs: map[ssa.Value]Val{}}
				if len(fr.fn.Blocks) > 0 {
					c.prepare(fr)
					for _, li := range fr.loops {
						var ph []string
						for _, in := range li.head.Instrs {
							if p, ok := in.(*ssa.Phi); ok {
								ph = append(ph, p.Comment+"="+p.Name())
							}
						}
						fmt.Printf("%s loop %d head block %d at %s phis %v\n", n, li.ord, li.head.Index, c.posString(loopPos(li)), ph)
					}
				}
			}
		}
	case "spectest":
		os.Exit(specTestCmd(*root))
	case "replay":
		fs2 := flag.NewFlagSet("replay", flag.ExitOnError)
		file := fs2.String("file", "", "replay record")
		fs2.Parse(os.Args[2:])
		os.Exit(replayFile(*file))
	case "check", "baseline":
		os.Exit(runCheck(*root, *prop, *tier, cmd == "baseline", *verbose, *keep, *fnName))
	default:
		fmt.Fprintln(os.Stderr, "unknown command")
		os.Exit(2)
	}
}

func fatal(err error) {
	fmt.Fprintln(os.Stderr, "govc: "+err.Error())
	os.Exit(2)
}

type fnReport struct {
	Key        string   `json:"function"`
	Obls       int      `json:"obligations"`
	Discharged int      `json:"discharged"`
	Unrolled   int      `json:"unrolled_loops"`
	Notes      []string `json:"notes,omitempty"`
	Error      string   `json:"error,omitempty"`
}

func runCheck(root, prop, tier string, makeBaseline, verbose, keep bool, onlyFn string) int {
	t0 := time.Now()
	seed := 0
	if s := os.Getenv("VERIF_SEED"); s != "" {
		seed, _ = strconv.Atoi(s)
	}
	if t := os.Getenv("VERIF_TIER"); t != "" && tier == "" {
		tier = t
	}
	eng := newEngine(root)
	if err := eng.loadContracts(); err != nil {
		fatal(err)
	}
	if err := eng.loadSpecs(); err != nil {
		fatal(err)
	}
	// functions of this property
	var cons []*Contract
	pkgSet := map[string]bool{}
	for _, c := range eng.allCons {
		if c.External || !c.hasProp(prop) {
			continue
		}
		if onlyFn != "" && !strings.Contains(c.Key, onlyFn) {
			continue
		}
		cons = append(cons, c)
		pkgSet[c.Pkg] = true
	}
	if len(cons) == 0 {
		fatal(fmt.Errorf("no contracts carry property %s", prop))
	}
	var pats []string
	for p := range pkgSet {
		pats = append(pats, p)
	}
	sort.Strings(pats)
	if err := eng.loadPackages(pats); err != nil {
		// the tree does not build: nothing can be decided
		fmt.Printf("UNDECIDED property=%s reason=load-error %v\n", prop, err)
		return 2
	}
	var obls []*Obligation
	var reports []fnReport
	var binding []string
	var bindingFns []*Contract
	var trustedFns []string
	for _, con := range cons {
		fn := eng.funcs[con.Key]
		if fn == nil {
			binding = append(binding, con.Key+": function not found")
			continue
		}
		if con.Trusted {
			trustedFns = append(trustedFns, shortFunc(con.Key))
			continue
		}
		ctx, err := eng.verifyFunction(fn, con, 0)
		rep := fnReport{Key: shortFunc(con.Key)}
		if err != nil {
			rep.Error = err.Error()
			binding = append(binding, err.Error())
			bindingFns = append(bindingFns, con)
			reports = append(reports, rep)
			continue
		}
		if len(ctx.unbound) > 0 {
			binding = append(binding, ctx.unbound...)
			bindingFns = append(bindingFns, con)
		}
		rep.Obls = len(ctx.obls)
		rep.Unrolled = ctx.unrolled
		rep.Notes = ctx.notes
		reports = append(reports, rep)
		obls = append(obls, ctx.obls...)
	}
	// per-obligation limit of the individual race (most obligations never get
	// there: the per-function incremental session settles them). Generous on
	// purpose: the slowest claimed obligation needs about 10 s on an idle
	// machine and the checks may run on a loaded one.
	timeout := 30
	if tier == "thorough" {
		timeout = 90
	}
	if s := os.Getenv("GOVC_OBL_TIMEOUT"); s != "" {
		// the must-fail corpus runs with a short limit: a mutant only has to fail
		if n, err := strconv.Atoi(s); err == nil && n > 0 {
			timeout = n
		}
	}
	work := filepath.Join(root, ".work", prop)
	os.RemoveAll(work)
	eng.discharge(obls, work, timeout, tier == "thorough", 8)
	// the search for failing inputs (models, guesses, bounded stand-in runs)
	// has a wall-clock budget; what is not found in time is reported without input
	searchDeadline = time.Now().Add(120 * time.Second)
	if tier == "thorough" {
		searchDeadline = time.Now().Add(900 * time.Second)
	}
	// ground checks of the spec functions these contracts use
	usedSpecFiles := map[string]bool{}
	for _, o := range obls {
		for name := range o.ctx.usedSpecs {
			if sp := eng.specs[name]; sp != nil {
				usedSpecFiles[sp.File] = true
			}
		}
	}
	var specTests []specTestResult
	specOK := true
	if len(usedSpecFiles) > 0 {
		specTests, specOK = runSpecTests(root, usedSpecFiles, filepath.Join(work, "spectest"))
	}

	// classify
	base := Baseline{Property: prop}
	if b, err := os.ReadFile(filepath.Join(root, "claimed", prop+".json")); err == nil {
		json.Unmarshal(b, &base)
	}
	undec := map[string]bool{}
	for _, k := range base.Undecided {
		undec[k] = true
	}
	baselineUndecided = undec
	known := loadKnown(root)
	byBackend := map[string]int{}
	solverTime := 0.0
	var failed, canaryBad, coverBad, undecidedNow []*Obligation
	nReal, nDis, nCanaryOK, nCoverOK := 0, 0, 0, 0
	var samples []map[string]interface{}
	for _, o := range obls {
		r := o.Result
		if r == nil {
			r = &solverResult{Status: "error"}
			o.Result = r
		}
		solverTime += r.Time
		switch {
		case o.Canary:
			if r.Status == "unsat" {
				canaryBad = append(canaryBad, o)
			} else {
				nCanaryOK++
			}
		case o.Cover:
			if r.Status == "unsat" {
				coverBad = append(coverBad, o)
			} else {
				nCoverOK++
			}
		default:
			nReal++
			if r.Status == "unsat" {
				nDis++
				byBackend[r.Backend]++
				if len(samples) < 6 {
					samples = append(samples, map[string]interface{}{"key": o.Key, "kind": o.Kind, "at": o.Pos, "clause": o.Clause, "backend": r.Backend, "time_s": r.Time, "query_kb": o.QueryKB})
				}
			} else {
				failed = append(failed, o)
			}
		}
		if verbose {
			fmt.Printf("  %-8s %-7s %6.2fs %s  [%s] %s\n", r.Status, r.Backend, r.Time, o.Key, o.Pos, o.Clause)
		}
	}
	if makeBaseline {
		nb := Baseline{Property: prop, MinObls: nReal}
		for _, o := range failed {
			switch o.Kind {
			case "post", "inv-entry", "inv-step", "assert", "pre", "frameobj":
				// a clause somebody wrote (or the object-level frame) is never
				// baselined away: it has to be proved or the contract corrected
				fmt.Printf("baseline: NOT LISTED (explicit clause fails) %s (%s) [%s] %s\n", o.Key, o.Result.Status, o.Pos, o.Clause)
				continue
			}
			nb.Undecided = append(nb.Undecided, o.Key)
			fmt.Printf("baseline: undecided %s (%s) [%s] %s %s\n", o.Key, o.Result.Status, o.Pos, o.Desc, o.Clause)
		}
		for _, c := range cons {
			nb.Functions = append(nb.Functions, shortFunc(c.Key))
		}
		sort.Strings(nb.Undecided)
		b, _ := json.MarshalIndent(nb, "", " ")
		os.MkdirAll(filepath.Join(root, "claimed"), 0o755)
		os.WriteFile(filepath.Join(root, "claimed", prop+".json"), append(b, '\n'), 0o644)
		fmt.Printf("baseline written: %d obligations, %d undecided\n", nReal, len(failed))
		undec = map[string]bool{}
		for _, k := range nb.Undecided {
			undec[k] = true
		}
		base = nb
	}
	exit := 0
	violations := 0
	boundedDone := map[string]string{}
	var lines []string
	replayDir := filepath.Join(root, "replays", prop)
	os.RemoveAll(replayDir)
	os.MkdirAll(replayDir, 0o755)
	var undecidedKeys []string
	for _, o := range failed {
		if undec[o.Key] {
			undecidedNow = append(undecidedNow, o)
			undecidedKeys = append(undecidedKeys, o.Key)
			continue
		}
		if kf := known.match(prop, o.Key); kf != nil {
			lines = append(lines, fmt.Sprintf("KNOWN-FINDING: property=%s %s [%s]", prop, kf.What, o.Key))
			continue
		}
		violations++
		path, replayed := writeReplay(eng, replayDir, prop, o)
		if !replayed {
			// bounded stand-in search for a concrete failing input of this function
			if bp, ok := boundedSearch(eng, o.ctx.fn, o.ctx.con, work, replayDir, prop, boundedDone); ok {
				path, replayed = bp, true
			}
		}
		suffix := ""
		if !replayed {
			suffix = " no-failing-input-found"
		}
		lines = append(lines, fmt.Sprintf("VIOLATION property=%s replay=%s obligation=%s at=%s%s", prop, path, o.Key, o.Pos, suffix))
		exit = 1
	}
	// functions whose contract no longer binds: only a replayed failing input counts
	for _, con := range bindingFns {
		if fn := eng.funcs[con.Key]; fn != nil {
			if bp, ok := boundedSearch(eng, fn, con, work, replayDir, prop, boundedDone); ok {
				violations++
				exit = 1
				lines = append(lines, fmt.Sprintf("VIOLATION property=%s replay=%s obligation=%s/bounded at=%s", prop, bp, shortFunc(con.Key), ""))
			} else if cp := boundedCandidate[con.Key]; cp != "" {
				// a postcondition that was proved on the unchanged tree now
				// has a model in the bounded verification condition of the
				// changed function, and the real run did not contradict it
				violations++
				exit = 1
				lines = append(lines, fmt.Sprintf("VIOLATION property=%s replay=%s obligation=%s/bounded at=%s no-failing-input-found", prop, cp, shortFunc(con.Key), ""))
			}
		}
	}
	toolErr := false
	for _, o := range canaryBad {
		if violations > 0 {
			lines = append(lines, fmt.Sprintf("NOTE property=%s canary %s is provable on this tree (a violation is reported, so the canary is not a vacuity signal)", prop, o.Key))
			continue
		}
		lines = append(lines, fmt.Sprintf("TOOL-ERROR property=%s canary %s was proved: the check is vacuous", prop, o.Key))
		toolErr = true
	}
	if !specOK {
		lines = append(lines, fmt.Sprintf("TOOL-ERROR property=%s a spec function fails its standard's ground checks (see evidence spec_tests)", prop))
		toolErr = true
	}
	for _, o := range coverBad {
		if violations > 0 {
			// a failed clause is assumed after it has been reported, which can
			// make the rest of that function unreachable
			lines = append(lines, fmt.Sprintf("NOTE property=%s cover %s unreachable after a reported violation", prop, o.Key))
			continue
		}
		lines = append(lines, fmt.Sprintf("TOOL-ERROR property=%s cover %s unreachable: contradictory assumptions", prop, o.Key))
		toolErr = true
	}
	for _, b := range binding {
		lines = append(lines, fmt.Sprintf("UNDECIDED property=%s reason=contract-binding %s", prop, b))
	}
	if base.MinObls > 0 && nReal < base.MinObls*8/10 && len(binding) == 0 && onlyFn == "" {
		lines = append(lines, fmt.Sprintf("UNDECIDED property=%s reason=obligation-count %d < committed %d", prop, nReal, base.MinObls))
	}
	for _, l := range lines {
		fmt.Println(l)
	}
	// evidence
	var fnNames []string
	for _, r := range reports {
		fnNames = append(fnNames, r.Key)
	}
	var assumed []string
	var akeys []string
	for k := range eng.assumedUsed {
		akeys = append(akeys, k)
	}
	sort.Strings(akeys)
	for _, k := range akeys {
		con := eng.assumedUsed[k]
		assumed = append(assumed, shortFunc(k)+": "+strings.Join(con.Raw, " ; "))
	}
	notes := []string{}
	for _, r := range reports {
		notes = append(notes, r.Notes...)
	}
	trusted := []string{"Go compiler/runtime and go/ssa (x/tools v0.50.0)", "govc's encoding of SSA instructions into SMT (integers mathematical with exact wrap-around for unsigned and narrow signed types; int/int64 arithmetic mathematical with a separate no-overflow obligation)", "z3-new 5.1.0 / cvc5 1.0.3 / z3 4.8.12 unsat answers", "sequential semantics: no data race on the state a function touches", "runtime allocation limit 2^48 elements per object"}
	for _, a := range assumed {
		trusted = append(trusted, "assumed contract: "+a)
	}
	var acl []string
	for k := range eng.assumedClauses {
		acl = append(acl, k)
	}
	sort.Strings(acl)
	for _, k := range acl {
		trusted = append(trusted, "assumed postcondition (relied on by callers, not proved of the body): "+k)
	}
	for _, t := range trustedFns {
		trusted = append(trusted, "trusted (body not verified): "+t)
	}
	seenNote := map[string]bool{}
	for _, n := range notes {
		if strings.HasPrefix(n, "assumed ") && !seenNote[n] {
			seenNote[n] = true
			trusted = append(trusted, n)
		}
	}
	if len(samples) == 0 {
		samples = append(samples, map[string]interface{}{"note": "no obligation discharged"})
	}
	ev := map[string]interface{}{
		"property_id": prop,
		"tier":        tier,
		"seed":        seed,
		"level":       "proof",
		"wall_s":      time.Since(t0).Seconds(),
		"violations":  violations,
		"coverage": map[string]interface{}{
			"obligations":                 nReal - len(undecidedNow),
			"discharged":                  nDis,
			"checker_cmd":                 fmt.Sprintf("govc check -prop %s -tier %s (go/ssa VC generation; z3-new, cvc5, z3 raced per obligation, %ds each)", prop, tier, timeout),
			"trusted_base":                trusted,
			"functions_under_contract":    fnNames,
			"function_reports":            reports,
			"by_backend":                  byBackend,
			"solver_time_s":               solverTime,
			"undecided":                   undecidedKeys,
			"undecided_note":              "implicit safety obligations that do not discharge on the pinned tree; excluded from the claim and from obligations/discharged",
			"canaries_failed_as_expected": nCanaryOK,
			"covers_reachable":            nCoverOK,
			"binding_problems":            binding,
			"spec_tests":                  specTests,
			"engine_notes":                notes,
			"samples":                     samples,
		},
		"assumptions": trusted,
	}
	os.MkdirAll(filepath.Join(root, "evidence"), 0o755)
	b, _ := json.MarshalIndent(ev, "", " ")
	os.WriteFile(filepath.Join(root, "evidence", prop+".json"), append(b, '\n'), 0o644)
	fmt.Printf("property %s: %d functions, %d obligations, %d discharged, %d undecided(baseline), %d violations, canaries ok %d, covers ok %d, %.1fs\n", prop, len(reports), nReal, nDis, len(undecidedNow), violations, nCanaryOK, nCoverOK, time.Since(t0).Seconds())
	if !keep && exit == 0 && !toolErr {
		os.RemoveAll(work)
	}
	if toolErr && exit == 0 {
		return 2
	}
	if len(binding) > 0 && exit == 0 {
		// a contract could not be brought to bear on the code: nothing was
		// decided for that function (never the case on the pinned tree)
		return 2
	}
	return exit
}

type knownSet struct{ list []KnownFinding }

func loadKnown(root string) *knownSet {
	ks := &knownSet{}
	if b, err := os.ReadFile(filepath.Join(root, "known_findings.json")); err == nil {
		json.Unmarshal(b, &ks.list)
	}
	return ks
}

func (k *knownSet) match(prop, key string) *KnownFinding {
	for i := range k.list {
		f := &k.list[i]
		if f.Property == prop && f.Key == key && f.Status == "open" {
			return f
		}
	}
	return nil
}

// writeReplay records a failed obligation; a replay against the real code
// is attempted when the model can be turned into Go values.
func writeReplay(eng *Engine, dir, prop string, o *Obligation) (string, bool) {
	name := sanitize(o.Key)
	if len(name) > 100 {
		name = name[:100]
	}
	path := filepath.Join(dir, name+".json")
	rec := map[string]interface{}{
		"property":   prop,
		"obligation": o.Key,
		"kind":       o.Kind,
		"function":   o.Func,
		"at":         o.Pos,
		"clause":     o.Clause,
		"desc":       o.Desc,
		"status":     o.Result.Status,
		"backend":    o.Result.Backend,
		"query":      o.queryFile,
	}
	var outs []map[string]string
	for _, r := range o.All {
		out := r.Output
		if len(out) > 6000 {
			out = out[:6000]
		}
		outs = append(outs, map[string]string{"backend": r.Backend, "status": r.Status, "output": out})
	}
	rec["solver_outputs"] = outs
	replayed := false
	searchable := o.queryFile != "" && (o.Kind == "post" || o.Kind == "bounds" || o.Kind == "nil" || o.Kind == "div" || o.Kind == "panic" || o.Kind == "pre-panic" || o.Kind == "conv" || o.Kind == "assert")
	origQuery := o.queryFile
	seed := int64(1)
	if s := os.Getenv("VERIF_SEED"); s != "" {
		if n, err := strconv.ParseInt(s, 10, 64); err == nil {
			seed = n
		}
	}
	// Candidate inputs, in order: the solver's own model; a model of the
	// query without quantified assumptions; small random concrete inputs
	// under which the negated clause is satisfiable. Each candidate counts
	// only if it replays on the real code.
	verdict := ""
	var attempts []string
	try := func(label string) bool {
		if time.Now().After(searchDeadline) {
			return false
		}
		rp := safeReplay(eng, o, dir, name)
		if rp == nil {
			return false
		}
		attempts = append(attempts, label)
		rec["replay"] = rp
		rec["candidate_source"] = label
		if ok, _ := rp["confirmed"].(bool); ok {
			verdict = "confirmed"
			return true
		}
		reason, _ := rp["reason"].(string)
		if strings.HasPrefix(reason, "ENGINE-MISMATCH") || strings.HasPrefix(reason, "the real outcome satisfies") || strings.HasPrefix(reason, "the real code returned normally") {
			if verdict == "" {
				verdict = "contradicted"
			}
		} else if verdict != "confirmed" {
			verdict = "inconclusive"
		}
		return false
	}
	if o.Result.Status == "sat" {
		replayed = try("solver model")
	}
	if time.Now().After(searchDeadline) {
		searchable = false
		rec["search"] = "skipped: the time budget for finding failing inputs was used up"
	}
	if !replayed && searchable && o.Result.Status != "sat" && o.Result.Status != "unsat" {
		if wf, ok := weakenedModel(origQuery); ok {
			o.queryFile, o.weakened, o.fullQuery = wf, true, origQuery
			rec["status"] = "sat (with quantified assumptions left out; candidate input only)"
			replayed = try("model of the query without quantified assumptions")
			o.queryFile, o.weakened = origQuery, false
		}
	}
	if !replayed && searchable && o.Result.Status != "unsat" {
		for round := int64(0); round < 2 && !replayed && time.Now().Before(searchDeadline); round++ {
			if pins, ok := concretize(o, seed+round*7919, 64,filepath.Join(dir, "conc")); ok {
				o.pins = pins
				rec["concretised"] = true
				rec["status"] = "sat (after fixing the inputs to concrete values)"
				replayed = try("concretised inputs")
				if !replayed {
					o.pins = nil
				}
			} else {
				break
			}
		}
	}
	rec["candidate_attempts"] = attempts
	if verdict != "" {
		replayVerdict[path] = verdict
	}
	if _, ok := replayVerdict[path]; !ok && (o.Result.Status == "sat" || len(o.pins) > 0) {
		replayVerdict[path] = "inconclusive"
	}
	b, _ := json.MarshalIndent(rec, "", " ")
	os.WriteFile(path, append(b, '\n'), 0o644)
	return path, replayed
}

// boundedSearch re-runs one function with every loop explored up to three
// iterations (a bounded stand-in, never counted as proof) and looks for a
// model of a failed postcondition or safety obligation that replays as a
// real failure. It returns the replay record of the first confirmed one.
func boundedSearch(eng *Engine, fn *ssa.Function, con *Contract, work, replayDir, prop string, done map[string]string) (string, bool) {
	if p, ok := done[con.Key]; ok {
		return p, p != ""
	}
	done[con.Key] = ""
	if time.Now().After(searchDeadline) {
		return "", false
	}
	ctx, err := eng.verifyFunction(fn, con, boundedQ+1)
	if err != nil || ctx == nil {
		return "", false
	}
	var cand []*Obligation
	for _, o := range ctx.obls {
		if o.Canary || o.Cover {
			continue
		}
		switch o.Kind {
		case "post", "bounds", "nil", "div", "panic", "pre-panic", "conv", "assert":
			if baselineUndecided[o.Key] {
				continue // not part of the claim on the pinned tree either
			}
			o.Key += "/bounded"
			cand = append(cand, o)
		}
	}
	if len(cand) == 0 {
		return "", false
	}
	eng.discharge(cand, filepath.Join(work, "bounded"), 6, true, 14)
	for _, o := range cand {
		if o.Result == nil || o.Result.Status == "unsat" {
			continue
		}
		path, ok := writeReplay(eng, replayDir, prop, o)
		if ok {
			done[con.Key] = path
			return path, true
		}
		if (o.Kind == "post" || o.Kind == "assert") && replayVerdict[path] == "inconclusive" && boundedCandidate[con.Key] == "" {
			boundedCandidate[con.Key] = path
		}
	}
	return "", false
}

// searchDeadline: no new search for a failing input starts after this time.
var searchDeadline = time.Now().Add(time.Hour)

// baselineUndecided: obligations that do not discharge on the pinned tree.
var baselineUndecided = map[string]bool{}

// replayVerdict: replay record path -> confirmed | contradicted | inconclusive.
var replayVerdict = map[string]string{}

// boundedCandidate: function -> replay record of a postcondition with a model
// in the bounded run that the real code did not contradict.
var boundedCandidate = map[string]string{}

var _ = ssa.GlobalDebug
