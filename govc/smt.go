package main

// SMT-LIB text helpers, the fixed preamble, and the solver race.

import (
	"bytes"
	"context"
	"fmt"
	"math/big"
	"os"
	"os/exec"
	"path/filepath"
	"strings"
	"sync"
	"time"
)

func sx(op string, args ...string) string {
	return "(" + op + " " + strings.Join(args, " ") + ")"
}

func and(args ...string) string {
	var out []string
	for _, a := range args {
		if a == "true" {
			continue
		}
		if a == "false" {
			return "false"
		}
		out = append(out, a)
	}
	switch len(out) {
	case 0:
		return "true"
	case 1:
		return out[0]
	}
	return sx("and", out...)
}

func or(args ...string) string {
	var out []string
	for _, a := range args {
		if a == "false" {
			continue
		}
		if a == "true" {
			return "true"
		}
		out = append(out, a)
	}
	switch len(out) {
	case 0:
		return "false"
	case 1:
		return out[0]
	}
	return sx("or", out...)
}

func not(a string) string {
	switch a {
	case "true":
		return "false"
	case "false":
		return "true"
	}
	if strings.HasPrefix(a, "(not ") {
		return a[5 : len(a)-1]
	}
	return sx("not", a)
}

func implies(a, b string) string {
	if a == "true" {
		return b
	}
	if a == "false" || b == "true" {
		return "true"
	}
	return sx("=>", a, b)
}

func ite(c, a, b string) string {
	if c == "true" {
		return a
	}
	if c == "false" {
		return b
	}
	if a == b {
		return a
	}
	return sx("ite", c, a, b)
}

func eq(a, b string) string {
	if a == b {
		return "true"
	}
	return sx("=", a, b)
}

// le / lt fold literal comparisons.
func le(a, b string) string {
	x, okx := isNumLit(a)
	y, oky := isNumLit(b)
	if okx && oky {
		if x.Cmp(y) <= 0 {
			return "true"
		}
		return "false"
	}
	if a == b {
		return "true"
	}
	return sx("<=", a, b)
}

func lt(a, b string) string {
	x, okx := isNumLit(a)
	y, oky := isNumLit(b)
	if okx && oky {
		if x.Cmp(y) < 0 {
			return "true"
		}
		return "false"
	}
	return sx("<", a, b)
}

func num(n int64) string {
	if n < 0 {
		return fmt.Sprintf("(- %d)", -n)
	}
	return fmt.Sprintf("%d", n)
}

func bigNum(n *big.Int) string {
	if n.Sign() < 0 {
		return "(- " + new(big.Int).Neg(n).String() + ")"
	}
	return n.String()
}

func pow2(k uint) *big.Int { return new(big.Int).Lsh(big.NewInt(1), k) }
func pow2s(k uint) string  { return pow2(k).String() }

func isNumLit(s string) (*big.Int, bool) {
	if s == "" {
		return nil, false
	}
	neg := false
	t := s
	if strings.HasPrefix(s, "(- ") && strings.HasSuffix(s, ")") {
		neg = true
		t = s[3 : len(s)-1]
	}
	for _, c := range t {
		if c < '0' || c > '9' {
			return nil, false
		}
	}
	n, ok := new(big.Int).SetString(t, 10)
	if !ok {
		return nil, false
	}
	if neg {
		n.Neg(n)
	}
	return n, true
}

func add(a, b string) string {
	x, okx := isNumLit(a)
	y, oky := isNumLit(b)
	if okx && oky {
		return bigNum(new(big.Int).Add(x, y))
	}
	if okx && x.Sign() == 0 {
		return b
	}
	if oky && y.Sign() == 0 {
		return a
	}
	// a + (x - a) = x (re-indexed quantifiers, see evalCtx.quant)
	if strings.HasPrefix(b, "(- ") && strings.HasSuffix(b, " "+a+")") {
		if x := b[3 : len(b)-len(a)-2]; balanced(x) {
			return x
		}
	}
	if strings.HasPrefix(a, "(- ") && strings.HasSuffix(a, " "+b+")") {
		if x := a[3 : len(a)-len(b)-2]; balanced(x) {
			return x
		}
	}
	return sx("+", a, b)
}

// balanced: one complete term (an atom or one parenthesised expression).
func balanced(s string) bool {
	if s == "" {
		return false
	}
	depth := 0
	for i := 0; i < len(s); i++ {
		switch s[i] {
		case '(':
			depth++
		case ')':
			depth--
			if depth < 0 {
				return false
			}
			if depth == 0 && i != len(s)-1 {
				return false
			}
		case ' ':
			if depth == 0 {
				return false
			}
		}
	}
	return depth == 0
}

func sub(a, b string) string {
	x, okx := isNumLit(a)
	y, oky := isNumLit(b)
	if okx && oky {
		return bigNum(new(big.Int).Sub(x, y))
	}
	if oky && y.Sign() == 0 {
		return a
	}
	return sx("-", a, b)
}

func mul(a, b string) string {
	x, okx := isNumLit(a)
	y, oky := isNumLit(b)
	if okx && oky {
		return bigNum(new(big.Int).Mul(x, y))
	}
	if okx && x.Cmp(big.NewInt(1)) == 0 {
		return b
	}
	if oky && y.Cmp(big.NewInt(1)) == 0 {
		return a
	}
	if (okx && x.Sign() == 0) || (oky && y.Sign() == 0) {
		return "0"
	}
	return sx("*", a, b)
}

const preamble = `(set-option :produce-models true)
(set-logic ALL)
(declare-sort Str 0)
(declare-fun slen (Str) Int)
(declare-fun sat (Str Int) Int)
(declare-fun strlt (Str Str) Bool)
(declare-fun ssub (Str Int Int) Str)
(declare-fun scat (Str Str) Str)
(declare-fun strrow (Str) (Array Int Int))
(declare-datatypes ((Slice 0)) (((mkslice (sref Int) (soff Int) (slen_ Int) (scap Int)))))
(define-fun tdiv ((a Int) (b Int)) Int (ite (>= a 0) (ite (> b 0) (div a b) (- (div a (- b)))) (ite (> b 0) (- (div (- a) b)) (div (- a) (- b)))))
(define-fun tmod ((a Int) (b Int)) Int (- a (* b (tdiv a b))))
(define-fun wrapS ((x Int) (h Int)) Int (- (mod (+ x h) (* 2 h)) h))
(define-fun imin ((a Int) (b Int)) Int (ite (<= a b) a b))
(define-fun imax ((a Int) (b Int)) Int (ite (>= a b) a b))
(define-fun subref ((r Int) (i Int) (k Int)) Int (- 0 (+ (* (ite (>= r 0) (* 2 r) (+ 1 (* (- 2) r))) 4611686018427387904) (* i 1024) k 1)))
(declare-fun band (Int Int) Int)
(declare-fun bor (Int Int) Int)
(declare-fun bxor (Int Int) Int)
(declare-fun bshl (Int Int Int) Int)
(declare-fun bshr (Int Int) Int)
(declare-fun typeof (Int) Int)
(declare-fun blen (Int) Int)
`

// xor with zero (only in queries whose script mentions bxor: extra quantified
// axioms change how the incremental solver treats unrelated nonlinear goals)
const bxorAxioms = "(assert (forall ((x Int)) (! (= (bxor 0 x) x) :pattern ((bxor 0 x)))))\n(assert (forall ((x Int)) (! (= (bxor x 0) x) :pattern ((bxor x 0)))))\n(assert (forall ((x Int) (y Int)) (! (= (bxor x y) (bxor y x)) :pattern ((bxor x y)))))\n"

const strrowAxiom ="(assert (forall ((s Str) (i Int)) (! (= (select (strrow s) i) (sat s i)) :pattern ((select (strrow s) i)))))\n"

// ---- solver race ----

type solverResult struct {
	Status  string // unsat | sat | unknown | timeout | error
	Backend string
	Time    float64
	Output  string
}

type solverSpec struct {
	name string
	args func(file string, timeoutS int) []string
	bin  string
}

var solvers = []solverSpec{
	{"z3-new", func(f string, t int) []string { return []string{fmt.Sprintf("-T:%d", t), f} }, "z3-new"},
	// E-matching only (no model-based instantiation): often decisive for
	// proofs that instantiate contract quantifiers at loop indices
	{"z3-new/ematch", func(f string, t int) []string { return []string{"smt.mbqi=false", "smt.random_seed=7", fmt.Sprintf("-T:%d", t), f} }, "z3-new"},
	{"cvc5", func(f string, t int) []string {
		return []string{"--incremental", fmt.Sprintf("--tlimit=%d", t*1000), f}
	}, "cvc5"},
	{"z3", func(f string, t int) []string { return []string{fmt.Sprintf("-T:%d", t), f} }, "z3"},
	// z3 on the quantifier-based variant: lambda-defined rows make the
	// array theory incomplete ("unknown" at once) for some goals
	{"z3-new/gen", func(f string, t int) []string { return []string{fmt.Sprintf("-T:%d", t), f} }, "z3-new"},
	// the goal from the ground assumptions alone (every quantified
	// assumption left out): sound for proving, and what arithmetic goals
	// need when quantified frame facts would otherwise swamp the solver
	{"z3-new/noquant", func(f string, t int) []string { return []string{fmt.Sprintf("-T:%d", t), f} }, "z3-new"},
}

// writeNoQuant writes the variant of a query without quantified assumptions
// (the goal, the last assert, is kept). Returns "" when there is none to drop.
func writeNoQuant(file string) string {
	b, err := os.ReadFile(file)
	if err != nil {
		return ""
	}
	lines := strings.Split(string(b), "\n")
	goal := -1
	for k := len(lines) - 1; k >= 0; k-- {
		if strings.HasPrefix(lines[k], "(assert (not ") {
			goal = k
			break
		}
	}
	if goal < 0 {
		return ""
	}
	dropped := 0
	var sb strings.Builder
	for k, ln := range lines {
		if k != goal && strings.HasPrefix(ln, "(assert ") && (strings.Contains(ln, "(forall ") || strings.Contains(ln, "(exists ")) {
			dropped++
			continue
		}
		sb.WriteString(ln)
		sb.WriteString("\n")
	}
	if dropped == 0 {
		return ""
	}
	p := strings.TrimSuffix(file, ".smt2") + ".noquant.smt2"
	if os.WriteFile(p, []byte(sb.String()), 0o644) != nil {
		return ""
	}
	return p
}

func runOne(ctx context.Context, sp solverSpec, file string, timeoutS int) solverResult {
	t0 := time.Now()
	cctx, cancel := context.WithTimeout(ctx, time.Duration(timeoutS+2)*time.Second)
	defer cancel()
	cmd := exec.CommandContext(cctx, sp.bin, sp.args(file, timeoutS)...)
	var out bytes.Buffer
	cmd.Stdout = &out
	cmd.Stderr = &out
	_ = cmd.Run()
	el := time.Since(t0).Seconds()
	s := out.String()
	first := strings.TrimSpace(strings.SplitN(s, "\n", 2)[0])
	st := "unknown"
	switch first {
	case "unsat":
		st = "unsat"
	case "sat":
		st = "sat"
	case "unknown":
		st = "unknown"
	case "timeout":
		st = "timeout"
	default:
		if cctx.Err() != nil {
			st = "timeout"
		} else if strings.Contains(s, "error") || strings.Contains(s, "Error") {
			st = "error"
		}
	}
	if len(s) > 20000 {
		s = s[:20000]
	}
	return solverResult{Status: st, Backend: sp.name, Time: el, Output: s}
}

func runOneNamed(name, file string, timeoutS int) solverResult {
	for _, sp := range solvers {
		if sp.name == name {
			return runOne(context.Background(), sp, file, timeoutS)
		}
	}
	return solverResult{Status: "error"}
}

// solve races the back ends: z3-new gets a head start of a second, then
// cvc5 and old z3 join. The first definitive answer (unsat/sat) wins.
func solve(file string, timeoutS int, all bool) (solverResult, []solverResult) {
	ctx, cancel := context.WithCancel(context.Background())
	defer cancel()
	ch := make(chan solverResult, len(solvers))
	var wg sync.WaitGroup
	for i, sp := range solvers {
		wg.Add(1)
		go func(i int, sp solverSpec) {
			defer wg.Done()
			if i > 0 {
				select {
				case <-ctx.Done():
					ch <- solverResult{Status: "cancelled", Backend: sp.name}
					return
				case <-time.After(time.Duration(i) * 700 * time.Millisecond):
				}
			}
			f := file
			if strings.HasSuffix(sp.name, "/noquant") {
				g := writeNoQuant(file)
				if g == "" {
					ch <- solverResult{Status: "cancelled", Backend: sp.name}
					return
				}
				r := runOne(ctx, sp, g, timeoutS)
				if r.Status != "unsat" {
					// fewer assumptions: only a proof counts
					r.Status = "cancelled"
				}
				ch <- r
				return
			}
			if strings.HasSuffix(sp.name, "/gen") {
				g := strings.TrimSuffix(file, ".smt2") + ".gen.smt2"
				if !fileExists(g) {
					ch <- solverResult{Status: "cancelled", Backend: sp.name}
					return
				}
				f = g
			}
			if sp.bin == "cvc5" {
				// quantifier-based variant (no lambda terms) when one was written
				if g := strings.TrimSuffix(file, ".smt2") + ".gen.smt2"; fileExists(g) {
					f = g
				}
			}
			ch <- runOne(ctx, sp, f, timeoutS)
		}(i, sp)
	}
	var allRes []solverResult
	best := solverResult{Status: "unknown"}
	got := false
	for range solvers {
		r := <-ch
		allRes = append(allRes, r)
		if r.Status == "sat" && strings.Contains(r.Backend, "/") {
			// only a proof counts from the restricted variants (E-matching
			// only, quantified rows, no quantifiers): their "sat" need not be
			// a model of the full query
			r.Status = "unknown"
		}
		if !got && (r.Status == "unsat" || r.Status == "sat") {
			best = r
			got = true
			if !all {
				cancel()
			}
		}
	}
	wg.Wait()
	if !got {
		// keep the most informative non-answer
		for _, r := range allRes {
			if r.Status == "error" {
				best = r
			}
		}
		for _, r := range allRes {
			if r.Status == "unknown" || r.Status == "timeout" {
				best = r
				break
			}
		}
	}
	return best, allRes
}

// solveBatch runs one incremental z3 session over a file with many
// (push)(assert)(check-sat)(pop) groups and returns the answers in order.
func solveBatch(file string, n int, totalTimeoutS int) []string {
	ctx, cancel := context.WithTimeout(context.Background(), time.Duration(totalTimeoutS)*time.Second)
	defer cancel()
	cmd := exec.CommandContext(ctx, "z3-new", file)
	var out bytes.Buffer
	cmd.Stdout = &out
	cmd.Stderr = &out
	_ = cmd.Run()
	var res []string
	for _, ln := range strings.Split(out.String(), "\n") {
		ln = strings.TrimSpace(ln)
		switch ln {
		case "sat", "unsat", "unknown", "timeout":
			res = append(res, ln)
		}
	}
	for len(res) < n {
		res = append(res, "unknown")
	}
	return res
}

func fileExists(p string) bool {
	_, err := os.Stat(p)
	return err == nil
}

func writeQuery(dir, name, text string) (string, error) {
	if err := os.MkdirAll(dir, 0o755); err != nil {
		return "", err
	}
	p := filepath.Join(dir, name+".smt2")
	return p, os.WriteFile(p, []byte(text), 0o644)
}
