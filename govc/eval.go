package main

// Evaluation of contract expressions (Go expression syntax plus old, forall,
// exists, implies, iff, ite, spec.f) over symbolic states.

import (
	"os"
	"fmt"
	"go/ast"
	"go/constant"
	"go/token"
	"go/types"
	"math/big"
	"strconv"
	"strings"

	"golang.org/x/tools/go/ssa"
)

type evalCtx struct {
	c     *FnCtx
	st    *State
	old   *State
	names func(string) (Val, bool)
	bound map[string]Val
	pkg   *types.Package
	preds map[string]*Pred
	depth int
	loopVar func(n int, name string) (Val, bool)
	entryName func(name string) (Val, bool)
	inQuant bool
	calleeFact bool // evaluating a callee's contract at a call site
	wantAddr   bool // &x.f: the selector yields the field's address
	loopEntry *State
}

// load reads memory for a contract expression. Outside quantifiers the
// value is named and the range facts of its type are recorded; under a
// quantifier the read is a pure term (it may mention the bound variable).
func (e *evalCtx) load(p Val, t types.Type) Val {
	if e.inQuant {
		return e.c.loadQuiet(e.st, p, t)
	}
	return e.c.load(e.st, p, t)
}

func (e *evalCtx) withBound(name string, v Val) *evalCtx {
	n := *e
	n.bound = map[string]Val{}
	for k, x := range e.bound {
		n.bound[k] = x
	}
	n.bound[name] = v
	return &n
}

func (e *evalCtx) fail(format string, a ...interface{}) {
	panic(unsupported{"contract: " + fmt.Sprintf(format, a...)})
}

func exprString(x ast.Expr) string { return types.ExprString(x) }

func (e *evalCtx) boolOf(x ast.Expr) string {
	v := e.eval(x)
	if v.K != kBool && !(v.K == kMath && v.Sort == "Bool") {
		e.fail("expected boolean: %s", exprString(x))
	}
	return v.S
}

func (e *evalCtx) intOf(x ast.Expr) string {
	v := e.eval(x)
	if v.K != kInt && !(v.K == kMath && v.Sort == "Int") {
		e.fail("expected integer: %s (kind %d)", exprString(x), v.K)
	}
	return v.S
}

func (e *evalCtx) eval(x ast.Expr) Val {
	c := e.c
	switch t := x.(type) {
	case *ast.ParenExpr:
		return e.eval(t.X)
	case *ast.BasicLit:
		switch t.Kind {
		case token.INT:
			n, ok := new(big.Int).SetString(t.Value, 0)
			if !ok {
				e.fail("bad integer %s", t.Value)
			}
			return mathInt(bigNum(n))
		case token.CHAR:
			s, err := strconv.Unquote(t.Value)
			if err != nil || len(s) == 0 {
				e.fail("bad char %s", t.Value)
			}
			return mathInt(num(int64([]rune(s)[0])))
		case token.STRING:
			s, err := strconv.Unquote(t.Value)
			if err != nil {
				e.fail("bad string %s", t.Value)
			}
			return strVal(types.Typ[types.String], c.strLit(s))
		}
	case *ast.Ident:
		return e.ident(t.Name)
	case *ast.TypeAssertExpr:
		// x.(*T) for a named struct type T of the package: the boxed pointer
		// (meaningful only under typeis(x, "*pkg.T"))
		v := e.eval(t.X)
		if v.K != kIface {
			e.fail("type assertion on a non-interface")
		}
		if star, ok := t.Type.(*ast.StarExpr); ok {
			if id, ok := star.X.(*ast.Ident); ok && e.pkg != nil {
				if obj := e.pkg.Scope().Lookup(id.Name); obj != nil {
					return ptrVal(types.NewPointer(obj.Type()), sx("unbox", v.S), "0")
				}
			}
		}
		e.fail("unsupported type assertion in a contract")
	case *ast.UnaryExpr:
		switch t.Op {
		case token.NOT:
			return boolVal(not(e.boolOf(t.X)))
		case token.SUB:
			return mathInt(sub("0", e.intOf(t.X)))
		case token.AND:
			if sel, ok := t.X.(*ast.SelectorExpr); ok {
				n := *e
				n.wantAddr = true
				return n.selector(sel)
			}
			e.fail("address-of in contract (only &x.f is supported)")
		}
	case *ast.StarExpr:
		p := e.eval(t.X)
		if p.K != kPtr {
			e.fail("dereference of non-pointer %s", exprString(t.X))
		}
		return e.load(p, pointeeOfVal(p))
	case *ast.BinaryExpr:
		return e.binary(t)
	case *ast.CallExpr:
		return e.call(t)
	case *ast.IndexExpr:
		return e.index(t)
	case *ast.SliceExpr:
		return e.slice(t)
	case *ast.SelectorExpr:
		return e.selector(t)
	}
	e.fail("unsupported expression %s (%T)", exprString(x), x)
	return Val{}
}

func (e *evalCtx) ident(name string) Val {
	switch name {
	case "true":
		return boolVal("true")
	case "false":
		return boolVal("false")
	case "nil":
		return Val{K: kIface, S: "0"}
	}
	if v, ok := e.bound[name]; ok {
		return v
	}
	if e.names != nil {
		if v, ok := e.names(name); ok {
			return v
		}
	}
	if e.pkg != nil {
		if obj := e.pkg.Scope().Lookup(name); obj != nil {
			return e.object(obj)
		}
	}
	if obj := types.Universe.Lookup(name); obj != nil {
		if cst, ok := obj.(*types.Const); ok {
			return e.constObj(cst)
		}
	}
	e.fail("unknown name %q", name)
	return Val{}
}

func (e *evalCtx) constObj(cst *types.Const) Val {
	v := cst.Val()
	switch v.Kind() {
	case constant.Int:
		n, _ := new(big.Int).SetString(v.ExactString(), 10)
		return intVal(nil, bigNum(n))
	case constant.Bool:
		if constant.BoolVal(v) {
			return boolVal("true")
		}
		return boolVal("false")
	case constant.String:
		return strVal(types.Typ[types.String], e.c.strLit(constant.StringVal(v)))
	}
	e.fail("constant %s of unsupported kind", cst.Name())
	return Val{}
}

func (e *evalCtx) object(obj types.Object) Val {
	switch o := obj.(type) {
	case *types.Const:
		return e.constObj(o)
	case *types.Var:
		// package-level variable: load it
		for _, p := range e.c.eng.prog.AllPackages() {
			if p.Pkg == o.Pkg() {
				if g, ok := p.Members[o.Name()].(*ssa.Global); ok {
					ptr := ptrVal(g.Type(), e.c.eng.globalRef(g), "0")
					if _, isArr := o.Type().Underlying().(*types.Array); isArr {
						return ptr // arrays are used through their address (indexing, slicing)
					}
					return e.load(ptr, o.Type())
				}
			}
		}
	}
	e.fail("object %s not usable in a contract", obj.Name())
	return Val{}
}

func (e *evalCtx) binary(t *ast.BinaryExpr) Val {
	switch t.Op {
	case token.LAND:
		return boolVal(and(e.boolOf(t.X), e.boolOf(t.Y)))
	case token.LOR:
		return boolVal(or(e.boolOf(t.X), e.boolOf(t.Y)))
	}
	x := e.eval(t.X)
	y := e.eval(t.Y)
	switch t.Op {
	case token.EQL, token.NEQ:
		var r string
		if isIntLike(x) && isIntLike(y) {
			r = eq(x.S, y.S)
		} else if x.K == kMath || y.K == kMath {
			r = eq(x.S, y.S)
		} else if y.K == kIface && y.S == "0" && y.T == nil {
			r = e.isNil(x)
		} else if x.K == kIface && x.S == "0" && x.T == nil {
			r = e.isNil(y)
		} else if x.K == kSlice && y.K == kSlice {
			// slice header equality (same object, offset, length)
			r = and(eq(x.Ref, y.Ref), eq(x.Off, y.Off), eq(x.Len, y.Len))
		} else {
			r = e.c.equal(e.st, x, y)
		}
		if t.Op == token.NEQ {
			r = not(r)
		}
		return boolVal(r)
	case token.LSS, token.LEQ, token.GTR, token.GEQ:
		op := map[token.Token]string{token.LSS: "<", token.LEQ: "<=", token.GTR: ">", token.GEQ: ">="}[t.Op]
		if x.K == kStr && y.K == kStr {
			return boolVal(e.c.strOrder(t.Op, x.S, y.S))
		}
		if !isIntLike(x) || !isIntLike(y) {
			e.fail("ordering of non-integers in %s", exprString(t))
		}
		return boolVal(sx(op, x.S, y.S))
	}
	if !isIntLike(x) || !isIntLike(y) {
		if x.K == kStr && t.Op == token.ADD {
			return strVal(x.T, e.c.concat(x.S, y.S))
		}
		e.fail("arithmetic on non-integers in %s", exprString(t))
	}
	yl, ylit := isNumLit(y.S)
	switch t.Op {
	case token.ADD:
		return mathInt(add(x.S, y.S))
	case token.SUB:
		return mathInt(sub(x.S, y.S))
	case token.MUL:
		return mathInt(mul(x.S, y.S))
	case token.QUO:
		return mathInt(sx("div", x.S, y.S))
	case token.REM:
		return mathInt(sx("mod", x.S, y.S))
	case token.SHL:
		if ylit {
			return mathInt(mul(x.S, pow2s(uint(yl.Int64()))))
		}
		return mathInt(sx("*", x.S, sx("pow2f", y.S)))
	case token.SHR:
		if ylit {
			return mathInt(sx("div", x.S, pow2s(uint(yl.Int64()))))
		}
		return mathInt(sx("div", x.S, sx("pow2f", y.S)))
	case token.AND:
		if ylit && yl.Sign() >= 0 {
			return mathInt(maskTerm(x.S, yl))
		}
		return mathInt(sx("band", x.S, y.S))
	case token.OR:
		if ylit && yl.Sign() >= 0 {
			return mathInt(orConst(x.S, yl))
		}
		return mathInt(sx("bor", x.S, y.S))
	case token.XOR:
		if ylit && yl.Sign() >= 0 {
			return mathInt(xorConst(x.S, yl))
		}
		return mathInt(sx("bxor", x.S, y.S))
	}
	e.fail("operator %s", t.Op)
	return Val{}
}

func isIntLike(v Val) bool {
	return v.K == kInt || (v.K == kMath && v.Sort == "Int")
}

func (e *evalCtx) isNil(v Val) string {
	switch v.K {
	case kPtr:
		return eq(v.Ref, "0")
	case kSlice:
		return eq(v.Ref, "0")
	case kIface, kMap, kOpaque:
		return eq(v.S, "0")
	case kFunc:
		if v.Fn != nil {
			return "false"
		}
		return eq(v.S, "0")
	}
	e.fail("nil comparison on kind %d", v.K)
	return ""
}

var convNames = map[string]types.BasicKind{
	"int": types.Int, "int8": types.Int8, "int16": types.Int16, "int32": types.Int32, "int64": types.Int64,
	"uint": types.Uint, "uint8": types.Uint8, "byte": types.Uint8, "uint16": types.Uint16, "uint32": types.Uint32, "uint64": types.Uint64, "uintptr": types.Uintptr,
}

// boundedQ: how many indices a symbolic quantifier range is expanded to in
// a bounded stand-in run (parameter lengths are assumed within it there).
const boundedQ = 5

// noReindex switches quantifier re-indexing off (GOVC_NOREINDEX=1, for comparison).
var noReindex = os.Getenv("GOVC_NOREINDEX") != ""

// noExpand keeps small literal quantifier ranges quantified (GOVC_NOEXPAND=1, for comparison).
var noExpand = os.Getenv("GOVC_NOEXPAND") != ""

// reindexAll: also re-index quantifiers of the function's own clauses
// (invariants, postconditions), not only facts taken from callee contracts.
var reindexAll = os.Getenv("GOVC_REINDEX_ALL") != ""

// quantAnchor finds the first x[name] in body (outside old/before) whose x
// does not mention the bound name.
func quantAnchor(body ast.Expr, name string) ast.Expr {
	var found ast.Expr
	mentions := func(x ast.Expr) bool {
		m := false
		ast.Inspect(x, func(n ast.Node) bool {
			if id, ok := n.(*ast.Ident); ok && id.Name == name {
				m = true
			}
			return !m
		})
		return m
	}
	ast.Inspect(body, func(n ast.Node) bool {
		if found != nil {
			return false
		}
		switch t := n.(type) {
		case *ast.CallExpr:
			if id, ok := t.Fun.(*ast.Ident); ok && (id.Name == "old" || id.Name == "before" || id.Name == "forall" || id.Name == "exists") {
				return false
			}
		case *ast.IndexExpr:
			if id, ok := t.Index.(*ast.Ident); ok && id.Name == name && !mentions(t.X) {
				found = t.X
				return false
			}
		}
		return true
	})
	return found
}

func (e *evalCtx) quant(t *ast.CallExpr, q string) Val {
	if len(t.Args) != 4 {
		e.fail("%s(i, lo, hi, body) expected", q)
	}
	id, ok := t.Args[0].(*ast.Ident)
	if !ok {
		e.fail("%s: first argument must be an identifier", q)
	}
	lo := e.intOf(t.Args[1])
	hi := e.intOf(t.Args[2])
	if e.c.bounded > 0 {
		// bounded stand-in run: spell the quantifier out. Exact when the
		// range is a literal of at most 64; otherwise the first boundedQ
		// indices (the run assumes parameter lengths within that bound).
		n := int64(boundedQ)
		exact := false
		if d, ok := isNumLit(sub(hi, lo)); ok && d.IsInt64() && d.Int64() <= 64 {
			n = d.Int64()
			exact = true
		}
		if n < 0 {
			n = 0
		}
		var parts []string
		for k := int64(0); k < n; k++ {
			idx := add(lo, num(k))
			inner := e.withBound(id.Name, mathInt(idx))
			inner.inQuant = true // keep reads pure
			body := inner.boolOf(t.Args[3])
			in := "true"
			if !exact {
				in = sx("<", idx, hi)
			}
			if q == "forall" {
				parts = append(parts, implies(in, body))
			} else {
				parts = append(parts, and(in, body))
			}
		}
		if q == "forall" {
			return boolVal(and(parts...))
		}
		return boolVal(or(parts...))
	}
	// a literal range of at most 16 values is spelled out (no quantifier to
	// instantiate, no case split left to the solver)
	if l, ok := isNumLit(lo); ok {
		if h, ok2 := isNumLit(hi); ok2 && l.IsInt64() && h.IsInt64() && h.Int64()-l.Int64() <= 16 && !noExpand {
			var parts []string
			for k := l.Int64(); k < h.Int64(); k++ {
				inner := e.withBound(id.Name, mathInt(num(k)))
				inner.inQuant = true
				parts = append(parts, inner.boolOf(t.Args[3]))
			}
			if q == "forall" {
				return boolVal(and(parts...))
			}
			return boolVal(or(parts...))
		}
	}
	e.c.qctr++
	bn := fmt.Sprintf("%s_q%d", id.Name, e.c.qctr)
	bv := bn
	rng := and(sx("<=", lo, bn), sx("<", bn, hi))
	// Re-indexing: when the body reads x[i] for a slice x, quantify over the
	// absolute position a = off(x)+i in x's object instead of i. The read
	// then is (select row a) with the plain bound variable as index, which is
	// what E-matching needs to instantiate the fact at any position of that
	// object, however the position is written.
	if ax := quantAnchor(t.Args[3], id.Name); ax != nil && !noReindex && (reindexAll || e.c.con != nil && e.c.con.Reindex) {
		func() {
			defer func() {
				if r := recover(); r != nil {
					if _, ok := r.(unsupported); !ok {
						panic(r)
					}
				}
			}()
			if v := e.eval(ax); v.K == kSlice && v.Off != "0" {
				bv = sub(bn, v.Off)
				rng = and(sx("<=", add(v.Off, lo), bn), sx("<", bn, add(v.Off, hi)))
			}
		}()
	}
	inner := e.withBound(id.Name, mathInt(bv))
	inner.inQuant = true
	body := inner.boolOf(t.Args[3])
	if q == "forall" {
		return boolVal(fmt.Sprintf("(forall ((%s Int)) (=> %s %s))", bn, rng, body))
	}
	return boolVal(fmt.Sprintf("(exists ((%s Int)) (and %s %s))", bn, rng, body))
}

func (e *evalCtx) call(t *ast.CallExpr) Val {
	c := e.c
	if sel, ok := t.Fun.(*ast.SelectorExpr); ok {
		if id, ok := sel.X.(*ast.Ident); ok && id.Name == "spec" {
			return e.specCall(sel.Sel.Name, t.Args)
		}
	}
	id, ok := t.Fun.(*ast.Ident)
	if !ok {
		e.fail("call of %s in contract", exprString(t.Fun))
	}
	switch id.Name {
	case "old":
		if e.old == nil {
			e.fail("old() outside a two-state context")
		}
		n := *e
		n.st = e.old
		return n.eval(t.Args[0])
	case "forall", "exists":
		return e.quant(t, id.Name)
	case "implies":
		return boolVal(implies(e.boolOf(t.Args[0]), e.boolOf(t.Args[1])))
	case "iff":
		return boolVal(eq(e.boolOf(t.Args[0]), e.boolOf(t.Args[1])))
	case "ite":
		cnd := e.boolOf(t.Args[0])
		a := e.eval(t.Args[1])
		b := e.eval(t.Args[2])
		if isIntLike(a) && isIntLike(b) {
			return mathInt(ite(cnd, a.S, b.S))
		}
		return c.iteVal(cnd, a, b)
	case "len":
		v := e.eval(t.Args[0])
		if v.K == kMath {
			e.fail("len of mathematical value")
		}
		r := c.lenOf(e.st, v)
		return mathInt(r.S)
	case "cap":
		v := e.eval(t.Args[0])
		if v.K == kSlice {
			return mathInt(v.Cap)
		}
		e.fail("cap of non-slice")
	case "min", "max":
		fn := map[string]string{"min": "imin", "max": "imax"}[id.Name]
		r := e.intOf(t.Args[0])
		for _, a := range t.Args[1:] {
			r = sx(fn, r, e.intOf(a))
		}
		return mathInt(r)
	case "loopvar":
		// loopvar(N, name): the loop-carried variable `name` of loop N
		lit, ok := t.Args[0].(*ast.BasicLit)
		id2, ok2 := t.Args[1].(*ast.Ident)
		if !ok || !ok2 || e.loopVar == nil {
			e.fail("loopvar(N, name) needs a loop ordinal and a name, inside the function under verification")
		}
		n, _ := strconv.Atoi(lit.Value)
		v, found := e.loopVar(n, id2.Name)
		if !found {
			e.fail("loopvar(%d, %s): not found", n, id2.Name)
		}
		return v
	case "ghost":
		// ghost(x, name): ghost field `name` of the object x refers to
		ref, key, sort := e.ghostCell(t)
		h := c.heapGet(e.st, key, sort)
		r := sx("select", sx("select", h, ref), "0")
		switch sort {
		case "Int":
			return mathInt(r)
		case "Bool":
			return boolVal(r)
		}
		if strings.HasPrefix(sort, "(Array ") && !strings.Contains(r, "_q") {
			r = c.atomSort("garr", sort, r)
		}
		return mathVal(sort, r)
	case "entry":
		// entry(p): the value parameter p had on entry (inside a loop the
		// bare name denotes the loop-carried variable)
		id2, ok2 := t.Args[0].(*ast.Ident)
		if !ok2 || e.entryName == nil {
			e.fail("entry(name) is only available inside the function under verification")
		}
		v, found := e.entryName(id2.Name)
		if !found {
			e.fail("entry(%s): no such parameter", id2.Name)
		}
		return v
	case "at":
		// at(NAME, e): e in the state remembered by "mark NAME ..."
		nm, ok := t.Args[0].(*ast.Ident)
		if !ok || len(t.Args) != 2 {
			e.fail("at(NAME, expr) expected")
		}
		ms := c.marks[nm.Name]
		if ms == nil {
			e.fail("at(%s, ...): no such mark has been passed", nm.Name)
		}
		n := *e
		n.st = ms
		return n.eval(t.Args[1])
	case "inmap":
		// inmap(m, k): k is a key of map m
		m := e.eval(t.Args[0])
		if m.K != kMap {
			e.fail("inmap needs a map")
		}
		k := e.eval(t.Args[1])
		dk, _, mt := c.mapKeys(m.T)
		ki := c.mapKeyIndex(mt, k)
		return boolVal(and(not(eq(m.S, "0")), sx("select", sx("select", c.heapGet(e.st, dk, "Bool"), m.S), ki)))
	case "onlyobjs":
		// onlyobjs(s1, s2, ...): among the objects that existed in the
		// reference state (old state / loop entry), only those of s1, s2, ...
		// have changed elements (of the element types of the arguments).
		if c.bounded > 0 {
			return boolVal("true") // bounded stand-in: frame facts are left out (no quantifiers)
		}
		ref := e.old
		if ref == nil {
			ref = e.loopEntry
		}
		if ref == nil {
			e.fail("onlyobjs outside a two-state context")
		}
		byKey := map[string][]string{}
		sorts := map[string]string{}
		var order []string
		for _, a := range t.Args {
			v := e.eval(a)
			if v.K != kSlice {
				e.fail("onlyobjs needs slices")
			}
			for _, k := range elemKeys(v.Root) {
				if k.array {
					e.fail("onlyobjs on slice of structs with arrays")
				}
				if _, ok := byKey[k.key]; !ok {
					order = append(order, k.key)
				}
				byKey[k.key] = append(byKey[k.key], v.Ref)
				sorts[k.key] = sortOf(k.typ)
			}
		}
		var cs []string
		for _, key := range order {
			hn := c.heapGet(e.st, key, sorts[key])
			ho := c.heapGet(ref, key, sorts[key])
			if hn == ho {
				continue
			}
			c.qctr++
			r := fmt.Sprintf("r_q%d", c.qctr)
			conds := []string{sx("<", sx("objroot", r), ref.wm)}
			for _, x := range byKey[key] {
				conds = append(conds, not(eq(r, x)))
			}
			cs = append(cs, fmt.Sprintf("(forall ((%s Int)) (=> %s (= (select %s %s) (select %s %s))))", r, and(conds...), hn, r, ho, r))
		}
		return boolVal(and(cs...))
	case "sameoutside", "keptoutside":
		// sameoutside(s): every element of s's object outside
		// [off(s), off(s)+len(s)) is as it was when the function was entered.
		// keptoutside(s): ... as it was when the innermost loop was entered
		// (for inner loops that work on one chunk of a buffer).
		if c.bounded > 0 {
			return boolVal("true") // bounded stand-in: frame facts are left out (no quantifiers)
		}
		v := e.eval(t.Args[0])
		if v.K != kSlice {
			e.fail("sameoutside needs a slice")
		}
		ref := e.old
		if ref == nil || id.Name == "keptoutside" {
			ref = e.loopEntry
		}
		if ref == nil {
			e.fail("sameoutside outside a two-state context")
		}
		var cs []string
		for _, k := range elemKeys(v.Root) {
			if k.array {
				e.fail("sameoutside on slice of structs with arrays")
			}
			ls := sortOf(k.typ)
			hn := c.heapGet(e.st, k.key, ls)
			ho := c.heapGet(ref, k.key, ls)
			if hn == ho {
				continue
			}
			c.qctr++
			a := fmt.Sprintf("a_q%d", c.qctr)
			cs = append(cs, fmt.Sprintf("(forall ((%s Int)) (=> (or (< %s %s) (>= %s %s)) (= (select (select %s %s) %s) (select (select %s %s) %s))))", a, a, v.Off, a, add(v.Off, v.Len), hn, v.Ref, a, ho, v.Ref, a))
		}
		return boolVal(and(cs...))
	case "row":
		// row(s): the element array of the object a slice / array pointer lives in
		// (index it with off(s)+i); only for elements stored as one term.
		a := e.eval(t.Args[0])
		switch a.K {
		case kSlice, kPtr:
			if kindOf(a.Root) == kStruct {
				e.fail("row of a slice of structs")
			}
			ls := sortOf(a.Root)
			h := c.heapGet(e.st, heapKey(a.Root, nil), ls)
			return mathVal("(Array Int "+ls+")", sx("select", h, a.Ref))
		case kArray:
			return mathVal(sortOf(a.T), a.S)
		case kStr:
			return mathVal("(Array Int Int)", sx("strrow", a.S))
		}
		e.fail("row of kind %d", a.K)
	case "before":
		// before(e): e evaluated in the state in which the innermost
		// enclosing loop was entered (loop invariants only)
		if e.loopEntry == nil {
			e.fail("before() is only available in loop invariants")
		}
		n := *e
		n.st = e.loopEntry
		return n.eval(t.Args[0])
	case "newobj":
		// newobj(x): x refers to an object allocated during the call
		// (not before the pre-state); false for nil
		refSt := e.old
		if refSt == nil {
			refSt = e.loopEntry // in an invariant: allocated since the loop was entered
		}
		if refSt == nil {
			e.fail("newobj() outside a two-state context")
		}
		a := e.eval(t.Args[0])
		switch a.K {
		case kSlice, kPtr:
			return boolVal(sx(">=", a.Ref, refSt.wm))
		case kMap:
			return boolVal(sx(">=", a.S, refSt.wm))
		case kIface:
			// an interface value holding a pointer: the pointer is new
			return boolVal(and(not(eq(a.S, "0")), sx(">=", sx("unbox", a.S), refSt.wm)))
		}
		e.fail("newobj of kind %d", a.K)
	case "sameobj":
		a, b := e.eval(t.Args[0]), e.eval(t.Args[1])
		return boolVal(eq(a.Ref, b.Ref))
	case "ref":
		a := e.eval(t.Args[0])
		switch a.K {
		case kSlice, kPtr:
			return mathInt(a.Ref)
		case kIface, kMap:
			return mathInt(a.S)
		}
		e.fail("ref of kind %d", a.K)
	case "off":
		a := e.eval(t.Args[0])
		if a.K == kSlice {
			return mathInt(a.Off)
		}
		if a.K == kPtr {
			return mathInt(a.Idx)
		}
		e.fail("off of kind %d", a.K)
	case "unchanged":
		// unchanged(s): every element of slice s equals its old value
		if e.old == nil {
			e.fail("unchanged() outside a two-state context")
		}
		s := e.eval(t.Args[0])
		if s.K != kSlice {
			e.fail("unchanged expects a slice")
		}
		return boolVal(e.sliceUnchanged(s, "0", s.Len))
	case "str":
		// str(b): the string with the bytes of slice b
		b := e.eval(t.Args[0])
		if b.K == kStr {
			return b
		}
		e.fail("str of kind %d", b.K)
	case "typeis":
		// typeis(x, "pkg.T")
		v := e.eval(t.Args[0])
		lit, ok := t.Args[1].(*ast.BasicLit)
		if !ok {
			e.fail("typeis needs a string literal")
		}
		name, _ := strconv.Unquote(lit.Value)
		tid, ok := c.eng.typeIDs[name]
		if !ok {
			tid = len(c.eng.typeIDs) + 1
			c.eng.typeIDs[name] = tid
		}
		return boolVal(and(not(eq(v.S, "0")), eq(sx("typeof", v.S), num(int64(tid)))))
	}
	if bk, ok := convNames[id.Name]; ok && len(t.Args) == 1 {
		v := e.intOf(t.Args[0])
		ii, _ := intInfoOf(types.Typ[bk])
		return mathInt(ii.wrap(v))
	}
	if p, ok := e.preds[id.Name]; ok {
		if len(p.Params) != len(t.Args) {
			e.fail("pred %s: %d arguments for %d parameters", p.Name, len(t.Args), len(p.Params))
		}
		if e.depth > 20 {
			e.fail("pred expansion too deep (%s)", p.Name)
		}
		n := *e
		n.depth = e.depth + 1
		n.bound = map[string]Val{}
		for k, v := range e.bound {
			n.bound[k] = v
		}
		for i, a := range t.Args {
			n.bound[p.Params[i]] = e.eval(a)
		}
		return n.eval(p.Body)
	}
	e.fail("unknown function %s in contract", id.Name)
	return Val{}
}

// ghostCell resolves ghost(x, name) to (object reference, heap key, sort).
func (e *evalCtx) ghostCell(t *ast.CallExpr) (ref, key, sort string) {
	if len(t.Args) != 2 {
		e.fail("ghost(x, name) expected")
	}
	id, ok := t.Args[1].(*ast.Ident)
	if !ok {
		e.fail("ghost: second argument must be a field name")
	}
	v := e.eval(t.Args[0])
	switch v.K {
	case kPtr, kSlice:
		ref = v.Ref
	case kIface, kMap, kOpaque:
		ref = v.S
	case kFunc:
		ref = e.c.fnTerm(v)
	default:
		if isIntLike(v) {
			ref = v.S
		} else {
			e.fail("ghost: first argument of kind %d has no identity", v.K)
		}
	}
	sort = ghostSorts[id.Name]
	if sort == "" {
		sort = "Int"
	}
	return ref, "G_" + id.Name, sort
}

func (e *evalCtx) sliceUnchanged(s Val, lo, hi string) string {
	c := e.c
	var cs []string
	for _, k := range elemKeys(s.Root) {
		if k.array {
			e.fail("unchanged on slice of structs with arrays")
		}
		ls := sortOf(k.typ)
		hn := c.heapGet(e.st, k.key, ls)
		ho := c.heapGet(e.old, k.key, ls)
		if hn == ho {
			continue
		}
		c.qctr++
		bn := fmt.Sprintf("u_q%d", c.qctr)
		cs = append(cs, fmt.Sprintf("(forall ((%s Int)) (=> (and (<= %s %s) (< %s %s)) (= (select (select %s %s) (+ %s %s)) (select (select %s %s) (+ %s %s)))))",
			bn, lo, bn, bn, hi, hn, s.Ref, s.Off, bn, ho, s.Ref, s.Off, bn))
	}
	return and(cs...)
}

func (e *evalCtx) specCall(name string, args []ast.Expr) Val {
	sp, ok := e.c.eng.specs[name]
	if !ok {
		e.fail("unknown spec function %s", name)
	}
	if len(args) != len(sp.Params) {
		e.fail("spec.%s: %d arguments for %d parameters", name, len(args), len(sp.Params))
	}
	var ts []string
	for i, a := range args {
		v := e.eval(a)
		switch sp.Params[i] {
		case "Int":
			if v.K == kFunc {
				ts = append(ts, e.c.fnTerm(v))
				continue
			}
			if v.K == kIface || v.K == kMap || v.K == kOpaque {
				ts = append(ts, v.S)
				continue
			}
			if v.K == kPtr {
				ts = append(ts, v.Ref)
				continue
			}
			if !isIntLike(v) {
				e.fail("spec.%s: argument %d must be an integer", name, i)
			}
			ts = append(ts, v.S)
		case "Bool":
			ts = append(ts, v.S)
		case "Str":
			if v.K != kStr {
				e.fail("spec.%s: argument %d must be a string", name, i)
			}
			ts = append(ts, v.S)
		case "(Array Int Int)":
			// a slice or array: pass the row shifted to start at 0 is not expressible; pass row + offset as two params instead
			switch v.K {
			case kArray, kMath:
				ts = append(ts, v.S)
			default:
				e.fail("spec.%s: argument %d must be an array value (use row(s) and off(s) for slices)", name, i)
			}
		default:
			ts = append(ts, v.S)
		}
	}
	e.c.usedSpecs[name] = true
	if len(ts) == 0 {
		return mathVal(sp.Result, name)
	}
	r := sx(name, ts...)
	switch sp.Result {
	case "Int":
		return mathInt(r)
	case "Bool":
		return boolVal(r)
	}
	return mathVal(sp.Result, r)
}

func (e *evalCtx) index(t *ast.IndexExpr) Val {
	c := e.c
	// row(s)[k] style handled through kMath arrays
	x := e.eval(t.X)
	switch x.K {
	case kSlice:
		i := e.intOf(t.Index)
		el := x.T.Underlying().(*types.Slice).Elem()
		p := Val{K: kPtr, T: types.NewPointer(el), Ref: x.Ref, Idx: add(x.Off, i), Root: el}
		return e.load(p, el)
	case kPtr:
		at, ok := pointeeOfVal(x).Underlying().(*types.Array)
		if !ok {
			e.fail("index of pointer to non-array")
		}
		i := e.intOf(t.Index)
		p := Val{K: kPtr, T: types.NewPointer(at.Elem()), Ref: x.Ref, Idx: add(x.Idx, i), Root: at.Elem()}
		return e.load(p, at.Elem())
	case kArray:
		i := e.intOf(t.Index)
		at := x.T.Underlying().(*types.Array)
		return fromTerm(at.Elem(), sx("select", x.S, i))
	case kStr:
		i := e.intOf(t.Index)
		return mathInt(sx("sat", x.S, i))
	case kMath:
		i := e.intOf(t.Index)
		if strings.HasPrefix(x.Sort, "(Array Int ") {
			inner := strings.TrimSuffix(strings.TrimPrefix(x.Sort, "(Array Int "), ")")
			r := sx("select", x.S, i)
			switch inner {
			case "Int":
				return mathInt(r)
			case "Bool":
				return boolVal(r)
			}
			return mathVal(inner, r)
		}
	case kMap:
		k := e.eval(t.Index)
		dk, vk, mt := c.mapKeys(x.T)
		if mt.Key().Underlying() == types.Typ[types.String].Underlying() {
		}
		ki := c.mapKeyIndex(mt, k)
		vs := sortOf(mt.Elem())
		dom := and(not(eq(x.S, "0")), sx("select", sx("select", c.heapGet(e.st, dk, "Bool"), x.S), ki))
		z := c.zero(mt.Elem())
		return fromTerm(mt.Elem(), ite(dom, sx("select", sx("select", c.heapGet(e.st, vk, vs), x.S), ki), toTerm(z)))
	}
	e.fail("index of kind %d in %s", x.K, exprString(t))
	return Val{}
}

func (e *evalCtx) slice(t *ast.SliceExpr) Val {
	x := e.eval(t.X)
	lo := "0"
	if t.Low != nil {
		lo = e.intOf(t.Low)
	}
	switch x.K {
	case kSlice:
		hi := x.Len
		if t.High != nil {
			hi = e.intOf(t.High)
		}
		return Val{K: kSlice, T: x.T, Root: x.Root, Ref: x.Ref, Off: add(x.Off, lo), Len: sub(hi, lo), Cap: sub(x.Cap, lo)}
	case kStr:
		hi := sx("slen", x.S)
		if t.High != nil {
			hi = e.intOf(t.High)
		}
		return strVal(x.T, e.c.substr(x.S, lo, hi))
	case kPtr:
		at, ok := pointeeOfVal(x).Underlying().(*types.Array)
		if ok {
			hi := num(at.Len())
			if t.High != nil {
				hi = e.intOf(t.High)
			}
			return Val{K: kSlice, T: types.NewSlice(at.Elem()), Root: at.Elem(), Ref: x.Ref, Off: add(x.Idx, lo), Len: sub(hi, lo), Cap: sub(num(at.Len()), lo)}
		}
	}
	e.fail("slice of kind %d", x.K)
	return Val{}
}

func (e *evalCtx) selector(t *ast.SelectorExpr) Val {
	c := e.c
	wantAddr := e.wantAddr
	if wantAddr {
		n := *e
		n.wantAddr = false
		e = &n
	}
	// package-qualified constant?
	if id, ok := t.X.(*ast.Ident); ok {
		if _, isBound := e.bound[id.Name]; !isBound {
			known := false
			if e.names != nil {
				_, known = e.names(id.Name)
			}
			if !known && e.pkg != nil {
				for _, imp := range e.pkg.Imports() {
					if imp.Name() == id.Name {
						if obj := imp.Scope().Lookup(t.Sel.Name); obj != nil {
							return e.object(obj)
						}
					}
				}
				if obj := e.pkg.Scope().Lookup(id.Name); obj != nil {
					if _, isPkg := obj.(*types.PkgName); isPkg {
						e.fail("package selector %s", exprString(t))
					}
				}
			}
		}
	}
	x := e.eval(t.X)
	name := t.Sel.Name
	switch x.K {
	case kPtr:
		st, ok := pointeeOfVal(x).Underlying().(*types.Struct)
		if !ok {
			e.fail("field %s of pointer to non-struct", name)
		}
		idx, emb := findField(st, name)
		if idx < 0 {
			e.fail("no field %s in %s", name, pointeeOfVal(x))
		}
		cur := x
		curT := st
		for _, k := range emb {
			fp := c.fieldAddr(cur, k, types.NewPointer(curT.Field(k).Type()))
			ft := curT.Field(k).Type()
			if pt, ok := ft.Underlying().(*types.Pointer); ok {
				ld := e.load(fp, ft)
				cur = ld
				curT = pt.Elem().Underlying().(*types.Struct)
			} else {
				cur = fp
				curT = ft.Underlying().(*types.Struct)
			}
		}
		ft := curT.Field(idx).Type()
		fp := c.fieldAddr(cur, idx, types.NewPointer(ft))
		if _, isArr := ft.Underlying().(*types.Array); isArr {
			return fp // arrays are used through their address (indexing, slicing)
		}
		if wantAddr {
			return fp
		}
		if _, isStruct := ft.Underlying().(*types.Struct); isStruct && types.TypeString(ft, nil) != "time.Time" {
			return fp // a struct stored by value is used through its address (x.d.f, x.d.arr[i])
		}
		return e.load(fp, ft)
	case kStruct:
		st := x.T.Underlying().(*types.Struct)
		idx, emb := findField(st, name)
		if idx < 0 {
			e.fail("no field %s", name)
		}
		cur := x
		for _, k := range emb {
			cur = cur.Fields[k]
		}
		return cur.Fields[idx]
	}
	e.fail("selector %s on kind %d", exprString(t), x.K)
	return Val{}
}

// findField finds a (possibly promoted through one level of embedding) field.
func findField(st *types.Struct, name string) (int, []int) {
	for i := 0; i < st.NumFields(); i++ {
		if st.Field(i).Name() == name {
			return i, nil
		}
	}
	for i := 0; i < st.NumFields(); i++ {
		f := st.Field(i)
		if !f.Embedded() {
			continue
		}
		ft := f.Type()
		if pt, ok := ft.Underlying().(*types.Pointer); ok {
			ft = pt.Elem()
		}
		if inner, ok := ft.Underlying().(*types.Struct); ok {
			for j := 0; j < inner.NumFields(); j++ {
				if inner.Field(j).Name() == name {
					return j, []int{i}
				}
			}
		}
	}
	return -1, nil
}

// fnTerm gives a function value an integer identity. A static function gets
// a literal derived from its name, and the facts its contract states about
// the function value itself (fnfact clauses, with "self" bound to it).
func (c *FnCtx) fnTerm(v Val) string {
	if v.Fn == nil {
		return v.S
	}
	if len(v.Bind) != 0 {
		bail("closure used as a spec argument")
	}
	name := v.Fn.String()
	h := hash8(name)
	id, _ := new(big.Int).SetString(h, 16)
	id.Add(id, big.NewInt(1<<40))
	lit := bigNum(id)
	if c.fnFacts == nil {
		c.fnFacts = map[string]bool{}
	}
	if !c.fnFacts[name] {
		c.fnFacts[name] = true
		if con := c.eng.contractFor(name); con != nil {
			for _, f := range con.FnFacts {
				ec := &evalCtx{c: c, st: c.entry, preds: con.Preds, bound: map[string]Val{"self": mathInt(lit)}}
				c.assumeRaw(ec.boolOf(f.Expr))
				c.eng.noteAssumed(con)
			}
		}
	}
	return lit
}

// loadQuiet reads memory without adding nil obligations (contract reads).
func (c *FnCtx) loadQuiet(st *State, p Val, t types.Type) Val {
	saved := c.quiet
	c.quiet = true
	defer func() { c.quiet = saved }()
	return c.load(st, p, t)
}
