package main

// Concretisation search: when a failed obligation comes back without a model
// (unknown / timeout, typical for clauses with quantifiers), fix the
// function's inputs to small random concrete values and ask again. The query
// is then essentially ground; a "sat" is a model like any other and is
// replayed against the real code.

import (
	"fmt"
	"math/big"
	"math/rand"
	"os"
	"strings"
	"sync"
)

var interesting = []string{"0", "1", "2", "3", "4", "5", "7", "8", "15", "16", "17", "31", "32", "63", "64", "127", "128", "129", "255", "256", "257", "1000", "65535", "65536", "16777215", "16777216", "2147483647", "2147483648", "4294967295", "4294967296", "-1", "-2", "-128", "-129"}

func (c *FnCtx) concreteAssignment(rng *rand.Rand) []string {
	var as []string
	nextRef := int64(11)
	for _, p := range c.replayParams {
		switch p.V.K {
		case kInt:
			ii, ok := intInfoOf(p.T)
			v := interesting[rng.Intn(len(interesting))]
			if n, _ := new(big.Int).SetString(v, 10); ok && ii.bits > 0 && n != nil {
				if n.Cmp(ii.min()) < 0 || n.Cmp(ii.max()) > 0 {
					v = "1"
				}
			}
			n, _ := new(big.Int).SetString(v, 10)
			if ok && ii.bits > 0 && rng.Intn(2) == 0 {
				// random bit pattern of a random width up to the type's
				w := 1 + rng.Intn(int(ii.bits))
				if ii.signed && w == int(ii.bits) {
					w--
				}
				n = new(big.Int).Rand(rng, pow2(uint(w)))
			}
			as = append(as, eq(p.V.S, bigNum(n)))
		case kBool:
			if rng.Intn(2) == 0 {
				as = append(as, p.V.S)
			} else {
				as = append(as, not(p.V.S))
			}
		case kStr:
			n := rng.Intn(5)
			as = append(as, eq(sx("slen", p.V.S), num(int64(n))))
			for i := 0; i < n; i++ {
				as = append(as, eq(sx("sat", p.V.S, num(int64(i))), num(int64("ab*?!.:0"[rng.Intn(8)]))))
			}
		case kSlice:
			ln := int64(rng.Intn(7))
			extra := int64([]int{0, 0, 1, 4, 16}[rng.Intn(5)])
			off := int64(rng.Intn(2))
			if rng.Intn(8) == 0 {
				as = append(as, eq(p.V.Ref, "0"), eq(p.V.Len, "0"), eq(p.V.Cap, "0"), eq(p.V.Off, "0"))
				continue
			}
			ref := nextRef
			nextRef++
			as = append(as, eq(p.V.Ref, num(ref)), eq(p.V.Off, num(off)), eq(p.V.Len, num(ln)), eq(p.V.Cap, num(ln+extra)))
			if kindOf(p.V.Root) == kInt {
				key := heapKey(p.V.Root, nil)
				if h := c.entryHeap(key); h != "" {
					ii, _ := intInfoOf(p.V.Root)
					for i := int64(0); i < ln+extra; i++ {
						var v int64
						switch rng.Intn(4) {
						case 0:
							v = 0
						case 1:
							v = int64(rng.Intn(256))
						case 2:
							v = 255
						default:
							v = int64(rng.Intn(4))
						}
						if ii.bits > 8 && rng.Intn(3) == 0 {
							v = rng.Int63n(1 << 31)
						}
						as = append(as, eq(sx("select", sx("select", h, p.V.Ref), num(off+i)), num(v)))
					}
				}
			}
		case kPtr:
			if rng.Intn(6) == 0 && !c.nonNil[p.V.Ref] {
				as = append(as, eq(p.V.Ref, "0"))
			} else {
				as = append(as, eq(p.V.Ref, num(nextRef)))
				nextRef++
			}
		}
	}
	return as
}

// concretize tries up to n random assignments; it returns the pins of the
// first one under which the negated goal is satisfiable.
func concretize(o *Obligation, seed int64, n int, dir string) ([]string, bool) {
	c := o.ctx
	if c == nil || o.queryFile == "" || len(c.replayParams) == 0 {
		return nil, false
	}
	b, err := os.ReadFile(o.queryFile)
	if err != nil {
		return nil, false
	}
	txt := string(b)
	i := strings.LastIndex(txt, "(check-sat)")
	if i < 0 {
		return nil, false
	}
	type res struct {
		k    int
		pins []string
	}
	rng := rand.New(rand.NewSource(seed))
	var cands [][]string
	for k := 0; k < n; k++ {
		cands = append(cands, c.concreteAssignment(rng))
	}
	found := make(chan res, n)
	var wg sync.WaitGroup
	sem := make(chan struct{}, 8)
	for k, as := range cands {
		wg.Add(1)
		sem <- struct{}{}
		go func(k int, as []string) {
			defer wg.Done()
			defer func() { <-sem }()
			var sb strings.Builder
			sb.WriteString(txt[:i])
			for _, a := range as {
				sb.WriteString("(assert " + a + ")\n")
			}
			sb.WriteString("(check-sat)\n")
			p, err := writeQuery(dir, fmt.Sprintf("conc_%s_%d", sanitize(o.Key), k), sb.String())
			if err != nil {
				return
			}
			r := runOneNamed("z3-new", p, 3)
			if r.Status == "sat" {
				found <- res{k, as}
			}
		}(k, as)
	}
	wg.Wait()
	close(found)
	best := -1
	var pins []string
	for r := range found {
		if best < 0 || r.k < best {
			best, pins = r.k, r.pins
		}
	}
	return pins, best >= 0
}
