package main

// Concretisation search: when a failed obligation comes back without a model
// (unknown / timeout, typical for clauses with quantifiers or recursive spec
// functions), fix the function's inputs to small random concrete values and
// ask again. The query is then essentially ground; a "sat" is a model like
// any other and is replayed against the real code.

import (
	"fmt"
	"go/types"
	"math/big"
	"math/rand"
	"os"
	"strings"
	"sync"
)

var interesting = []string{"0", "1", "2", "3", "4", "5", "7", "8", "15", "16", "17", "31", "32", "63", "64", "127", "128", "129", "255", "256", "257", "1000", "65535", "65536", "16777215", "16777216", "2147483647", "2147483648", "4294967295", "4294967296", "-1", "-2", "-128", "-129"}

const concAlphabet = "ab*?!.:0"

// gen produces equalities fixing value v (of type t) to random small data.
type concGen struct {
	b       *rb
	rng     *rand.Rand
	nextRef int64
	as      []string
	strPool []string
	strTerms [][2]string // (term, content) of every string fixed so far
}

func (g *concGen) add(a string) { g.as = append(g.as, a) }

func (g *concGen) randString() string {
	// reuse earlier strings often: equality between strings is what matters
	if len(g.strPool) > 0 && g.rng.Intn(10) < 7 {
		return g.strPool[g.rng.Intn(len(g.strPool))]
	}
	n := g.rng.Intn(4)
	var sb strings.Builder
	for i := 0; i < n; i++ {
		sb.WriteByte(concAlphabet[g.rng.Intn(len(concAlphabet))])
	}
	g.strPool = append(g.strPool, sb.String())
	return sb.String()
}

func (g *concGen) gen(v Val, t types.Type, depth int) {
	if depth > 4 {
		return
	}
	c := g.b.c
	switch v.K {
	case kInt:
		ii, ok := intInfoOf(t)
		s := interesting[g.rng.Intn(len(interesting))]
		n, _ := new(big.Int).SetString(s, 10)
		if ok && ii.bits > 0 && (n.Cmp(ii.min()) < 0 || n.Cmp(ii.max()) > 0) {
			n = big.NewInt(1)
		}
		if ok && ii.bits > 0 && g.rng.Intn(2) == 0 {
			w := 1 + g.rng.Intn(int(ii.bits))
			if ii.signed && w == int(ii.bits) {
				w--
			}
			n = new(big.Int).Rand(g.rng, pow2(uint(w)))
		}
		if depth > 0 && ok && ii.bits == 8 {
			// bytes inside buffers: favour a small alphabet and boundary values
			switch g.rng.Intn(4) {
			case 0:
				n = big.NewInt(0)
			case 1:
				n = big.NewInt(255)
			case 2:
				n = big.NewInt(int64(concAlphabet[g.rng.Intn(len(concAlphabet))]))
			}
		}
		g.add(eq(v.S, bigNum(n)))
	case kBool:
		if g.rng.Intn(2) == 0 {
			g.add(v.S)
		} else {
			g.add(not(v.S))
		}
	case kStr:
		s := g.randString()
		g.strTerms = append(g.strTerms, [2]string{v.S, s})
		g.add(eq(sx("slen", v.S), num(int64(len(s)))))
		for i := 0; i < len(s); i++ {
			g.add(eq(sx("sat", v.S, num(int64(i))), num(int64(s[i]))))
		}
	case kSlice:
		if g.rng.Intn(10) == 0 {
			g.add(eq(v.Ref, "0"))
			g.add(eq(v.Len, "0"))
			g.add(eq(v.Cap, "0"))
			g.add(eq(v.Off, "0"))
			return
		}
		el := v.Root
		maxLen := 7
		if kindOf(el) == kStruct || kindOf(el) == kStr {
			maxLen = 4
		}
		ln := int64(g.rng.Intn(maxLen))
		extra := int64([]int{0, 0, 1, 4}[g.rng.Intn(4)])
		off := int64(g.rng.Intn(2))
		ref := g.nextRef
		g.nextRef++
		g.add(eq(v.Ref, num(ref)))
		g.add(eq(v.Off, num(off)))
		g.add(eq(v.Len, num(ln)))
		g.add(eq(v.Cap, num(ln+extra)))
		for i := int64(0); i < ln+extra; i++ {
			idx := num(off + i)
			switch kindOf(el) {
			case kInt, kBool, kStr:
				if ct := g.b.cell(el, nil, sortOf(el), v.Ref, idx); ct != "" {
					g.gen(fromTerm(el, ct), el, depth+1)
				}
			case kStruct:
				p := Val{K: kPtr, T: types.NewPointer(el), Ref: v.Ref, Idx: idx, Root: el}
				g.genPointee(p, el, depth+1)
			}
		}
	case kStruct:
		st := mustStruct(t)
		for i, f := range v.Fields {
			g.gen(f, st.Field(i).Type(), depth+1)
		}
	case kPtr:
		if g.rng.Intn(8) == 0 && !c.nonNil[v.Ref] {
			g.add(eq(v.Ref, "0"))
			return
		}
		g.add(eq(v.Ref, num(g.nextRef)))
		g.nextRef++
		g.genPointee(v, pointeeOfVal(v), depth+1)
	}
}

func (g *concGen) genPointee(p Val, pt types.Type, depth int) {
	if depth > 4 {
		return
	}
	switch u := pt.Underlying().(type) {
	case *types.Array:
		el := u.Elem()
		if kindOf(el) != kInt && kindOf(el) != kBool {
			return
		}
		n := u.Len()
		if n > 64 {
			n = 64
		}
		for i := int64(0); i < n; i++ {
			if ct := g.b.cell(el, nil, sortOf(el), p.Ref, add(p.Idx, num(i))); ct != "" {
				g.gen(fromTerm(el, ct), el, depth+1)
			}
		}
	case *types.Struct:
		for i := 0; i < u.NumFields(); i++ {
			ft := u.Field(i).Type()
			fp := g.b.c.fieldAddr(Val{K: kPtr, T: types.NewPointer(pt), Ref: p.Ref, Idx: p.Idx, Root: p.Root, Path: p.Path}, i, types.NewPointer(ft))
			switch ft.Underlying().(type) {
			case *types.Array, *types.Struct:
				g.genPointee(fp, ft, depth+1)
			default:
				switch kindOf(ft) {
				case kFunc, kIface, kMap, kOpaque:
					continue
				}
				if ct := g.b.cell(fp.Root, fp.Path, sortOf(ft), fp.Ref, fp.Idx); ct != "" {
					g.gen(fromTerm(ft, ct), ft, depth+1)
				}
			}
		}
	default:
		switch kindOf(pt) {
		case kInt, kBool, kStr, kSlice, kPtr:
			if ct := g.b.cell(p.Root, p.Path, sortOf(pt), p.Ref, p.Idx); ct != "" {
				g.gen(fromTerm(pt, ct), pt, depth+1)
			}
		}
	}
}

// concretize tries up to n random assignments; it returns the pins of the
// first one under which the negated goal is satisfiable.
func concretize(o *Obligation, seed int64, n int, dir string) ([]string, bool) {
	c := o.ctx
	if c == nil || o.queryFile == "" || len(c.replayParams) == 0 {
		return nil, false
	}
	qb, err := os.ReadFile(o.queryFile)
	if err != nil {
		return nil, false
	}
	txt := string(qb)
	i := strings.LastIndex(txt, "(check-sat)")
	if i < 0 {
		return nil, false
	}
	saved := c.quiet
	c.quiet = true
	defer func() { c.quiet = saved }()
	type res struct {
		k    int
		pins []string
	}
	rng := rand.New(rand.NewSource(seed))
	var cands [][]string
	for k := 0; k < n; k++ {
		b := &rb{c: c, seen: map[string]bool{}, query: qb}
		if c.fn.Pkg != nil {
			b.pkg = c.fn.Pkg.Pkg
		}
		g := &concGen{b: b, rng: rng, nextRef: 11}
		func() {
			defer func() { recover() }()
			for _, p := range c.replayParams {
				g.gen(p.V, p.T, 0)
			}
		}()
		// strings are abstract values: make identity follow content
		for x := 0; x < len(g.strTerms); x++ {
			for y := x + 1; y < len(g.strTerms); y++ {
				if g.strTerms[x][0] == g.strTerms[y][0] {
					continue
				}
				if g.strTerms[x][1] == g.strTerms[y][1] {
					g.add(eq(g.strTerms[x][0], g.strTerms[y][0]))
				} else {
					g.add(not(eq(g.strTerms[x][0], g.strTerms[y][0])))
				}
			}
		}
		cands = append(cands, append(g.as, c.replayAssume...))
	}
	found := make(chan res, n)
	var wg sync.WaitGroup
	sem := make(chan struct{}, 8)
	for k, as := range cands {
		wg.Add(1)
		sem <- struct{}{}
		go func(k int, as []string) {
			defer wg.Done()
			defer func() { <-sem }()
			var sb strings.Builder
			sb.WriteString(txt[:i])
			for _, a := range as {
				sb.WriteString("(assert " + a + ")\n")
			}
			sb.WriteString("(check-sat)\n")
			p, err := writeQuery(dir, fmt.Sprintf("conc_%s_%d", sanitize(o.Key), k), sb.String())
			if err != nil {
				return
			}
			r := runOneNamed("z3-new", p, 3)
			if r.Status == "sat" {
				found <- res{k, as}
			}
		}(k, as)
	}
	wg.Wait()
	close(found)
	best := -1
	var pins []string
	for r := range found {
		if best < 0 || r.k < best {
			best, pins = r.k, r.pins
		}
	}
	return pins, best >= 0
}
