package main

// Loading of /repo packages and contract files; discharge of obligations.

import (
	"fmt"
	"go/token"
	"go/types"
	"os"
	"path/filepath"
	"sort"
	"strings"
	"sync"

	"golang.org/x/tools/go/packages"
	"golang.org/x/tools/go/ssa"
	"golang.org/x/tools/go/ssa/ssautil"
)

const repoRoot = "/repo"
const modPath = "golang.org/x/crypto"

type Engine struct {
	prog        *ssa.Program
	fset        *token.FileSet
	pkgs        []*packages.Package
	contracts   map[string]*Contract
	allCons     []*Contract
	specs       map[string]*SpecFn
	specText    map[string]string
	specOrder   []string
	pathIDs     map[string]int
	typeIDs     map[string]int
	boxed       map[string]Val
	usesAddr    bool
	usesStrID   bool
	globals     map[*ssa.Global]string
	assumedUsed map[string]*Contract
	assumedClauses map[string]bool
	funcs       map[string]*ssa.Function
	verifRoot   string
	mu          sync.Mutex
	sizes       types.Sizes
}

func newEngine(verifRoot string) *Engine {
	return &Engine{contracts: map[string]*Contract{}, specs: map[string]*SpecFn{}, specText: map[string]string{}, pathIDs: map[string]int{}, typeIDs: map[string]int{}, boxed: map[string]Val{}, globals: map[*ssa.Global]string{}, assumedUsed: map[string]*Contract{}, assumedClauses: map[string]bool{}, funcs: map[string]*ssa.Function{}, verifRoot: verifRoot, sizes: types.SizesFor("gc", "amd64")}
}

func (e *Engine) noteAssumed(con *Contract) { e.assumedUsed[con.Key] = con }

func (e *Engine) contractFor(key string) *Contract { return e.contracts[key] }

func (e *Engine) globalRef(g *ssa.Global) string {
	if r, ok := e.globals[g]; ok {
		return r
	}
	r := num(int64(1000 + len(e.globals)))
	e.globals[g] = r
	return r
}

func (e *Engine) sizeof(t types.Type) int64 { return e.sizes.Sizeof(t) }

func (e *Engine) autoInline(fn *ssa.Function) bool {
	if fn.Pkg == nil || !strings.HasPrefix(fn.Pkg.Pkg.Path(), modPath) {
		return false
	}
	n := 0
	for _, b := range fn.Blocks {
		n += len(b.Instrs)
		for _, s := range b.Succs {
			if s.Dominates(b) {
				return false
			}
		}
		for _, in := range b.Instrs {
			if call, ok := in.(*ssa.Call); ok {
				if f, ok := call.Call.Value.(*ssa.Function); ok && f == fn {
					return false
				}
			}
		}
	}
	return n <= 60
}

// contractFiles finds every contract file of /repo and of /verif/contracts.
func (e *Engine) loadContracts() error {
	var files []string
	filepath.Walk(repoRoot, func(p string, info os.FileInfo, err error) error {
		if err != nil {
			return nil
		}
		if info.IsDir() && (info.Name() == ".git" || info.Name() == "testdata") {
			return filepath.SkipDir
		}
		if info.Name() == "verif_contracts.go" {
			files = append(files, p)
		}
		return nil
	})
	sort.Strings(files)
	for _, f := range files {
		rel, _ := filepath.Rel(repoRoot, filepath.Dir(f))
		pkg := modPath
		if rel != "." {
			pkg = modPath + "/" + filepath.ToSlash(rel)
		}
		cons, _, err := parseContracts(f, pkg, false)
		if err != nil {
			return err
		}
		for _, c := range cons {
			if _, dup := e.contracts[c.Key]; dup {
				return fmt.Errorf("%s:%d: duplicate contract for %s", c.File, c.Line, c.Key)
			}
			e.contracts[c.Key] = c
			e.allCons = append(e.allCons, c)
		}
	}
	ext, _ := filepath.Glob(filepath.Join(e.verifRoot, "contracts", "*.contracts"))
	sort.Strings(ext)
	for _, f := range ext {
		cons, _, err := parseContracts(f, "", true)
		if err != nil {
			return err
		}
		for _, c := range cons {
			if _, dup := e.contracts[c.Key]; dup {
				return fmt.Errorf("%s:%d: duplicate contract for %s", c.File, c.Line, c.Key)
			}
			c.Trusted = true
			e.contracts[c.Key] = c
			e.allCons = append(e.allCons, c)
		}
	}
	return nil
}

func (e *Engine) loadSpecs() error {
	files, _ := filepath.Glob(filepath.Join(e.verifRoot, "specs", "*.smt2"))
	sort.Strings(files)
	for _, f := range files {
		b, err := os.ReadFile(f)
		if err != nil {
			return err
		}
		e.specText[f] = string(b)
		e.specOrder = append(e.specOrder, f)
		for _, ln := range strings.Split(string(b), "\n") {
			// ; spec name (Sort Sort) Result
			if !strings.HasPrefix(ln, "; spec ") {
				continue
			}
			rest := strings.TrimPrefix(ln, "; spec ")
			op := strings.Index(rest, "(")
			cp := strings.LastIndex(rest, ")")
			if op < 0 || cp < op {
				return fmt.Errorf("%s: bad spec line %q", f, ln)
			}
			name := strings.TrimSpace(rest[:op])
			sp := &SpecFn{Name: name, File: f, Result: strings.TrimSpace(rest[cp+1:])}
			sp.Params = splitSorts(rest[op+1 : cp])
			e.specs[name] = sp
		}
	}
	return nil
}

func splitSorts(s string) []string {
	var out []string
	depth := 0
	cur := ""
	for _, r := range s {
		switch {
		case r == '(':
			depth++
			cur += string(r)
		case r == ')':
			depth--
			cur += string(r)
		case (r == ' ' || r == '\t') && depth == 0:
			if cur != "" {
				out = append(out, cur)
				cur = ""
			}
		default:
			cur += string(r)
		}
	}
	if cur != "" {
		out = append(out, cur)
	}
	return out
}

func (e *Engine) loadPackages(patterns []string) error {
	cfg := &packages.Config{Mode: packages.LoadAllSyntax, Dir: repoRoot, BuildFlags: []string{"-tags=verif"}, Env: append(os.Environ(), "PATH=/opt/veriftools/go1.26.8/bin:"+os.Getenv("PATH"), "GOFLAGS=-mod=mod", "GOPROXY=off", "GOSUMDB=off", "GOTOOLCHAIN=local", "GOARCH=amd64", "GOOS=linux")}
	pkgs, err := packages.Load(cfg, patterns...)
	if err != nil {
		return err
	}
	var errs []string
	packages.Visit(pkgs, nil, func(p *packages.Package) {
		if strings.HasPrefix(p.PkgPath, modPath) {
			for _, e := range p.Errors {
				errs = append(errs, e.Error())
			}
		}
	})
	if len(errs) > 0 {
		return fmt.Errorf("/repo does not type-check: %s", strings.Join(errs, "; "))
	}
	e.pkgs = pkgs
	prog, _ := ssautil.AllPackages(pkgs, ssa.GlobalDebug)
	prog.Build()
	e.prog = prog
	e.fset = prog.Fset
	for fn := range ssautil.AllFunctions(prog) {
		e.funcs[fn.String()] = fn
	}
	return nil
}

func pow2fDef() string {
	var b strings.Builder
	b.WriteString("(define-fun ispow2 ((x Int)) Bool (or")
	for i := 0; i <= 63; i++ {
		fmt.Fprintf(&b, " (= x %s)", pow2s(uint(i)))
	}
	b.WriteString("))\n")
	b.WriteString("(define-fun pow2f ((k Int)) Int ")
	for i := 0; i <= 64; i++ {
		fmt.Fprintf(&b, "(ite (= k %d) %s ", i, pow2s(uint(i)))
	}
	b.WriteString("0")
	for i := 0; i <= 64; i++ {
		b.WriteString(")")
	}
	b.WriteString(")\n")
	return b.String()
}

const preamble2 = `(declare-fun unbox (Int) Int)
(declare-fun unboxS (Int) Str)
(declare-fun unboxB (Int) Bool)
(declare-fun boxptr (Int Int) Int)
(declare-fun strid (Str) Int)
(declare-fun strof (Int) Str)
(declare-fun objbase (Int) Int)
(declare-fun objsize (Int) Int)
`

// queryText assembles the SMT-LIB text of one obligation.
func (e *Engine) queryText(o *Obligation) string { return e.queryTextVariant(o, "z3") }

// variantLine selects a script line for a back-end family ("z3" or "gen").
func variantLine(ln, variant string) (string, bool) {
	if strings.HasPrefix(ln, "#z3# ") {
		return ln[5:], variant == "z3"
	}
	if strings.HasPrefix(ln, "#gen# ") {
		return ln[6:], variant == "gen"
	}
	return ln, true
}

func (e *Engine) queryTextVariant(o *Obligation, variant string) string {
	c := o.ctx
	var b strings.Builder
	b.WriteString(e.header(c))
	for _, ln := range c.script[:o.Prefix] {
		l, ok := variantLine(ln, variant)
		if !ok {
			continue
		}
		b.WriteString(l)
		b.WriteString("\n")
	}
	b.WriteString("(assert (not " + o.Goal + "))\n(check-sat)\n(get-model)\n")
	return b.String()
}

// header is the text that precedes the script in every query of ctx.
func (e *Engine) header(c *FnCtx) string {
	var b strings.Builder
	b.WriteString(preamble)
	usesStrRow, usesBxor := false, false
	for _, ln := range c.script {
		if !usesStrRow && strings.Contains(ln, "strrow") {
			usesStrRow = true
		}
		if !usesBxor && strings.Contains(ln, "(bxor ") {
			usesBxor = true
		}
	}
	if usesStrRow {
		b.WriteString(strrowAxiom)
	}
	if usesBxor {
		b.WriteString(bxorAxioms)
	}
	for _, ln := range c.script {
		if strings.Contains(ln, "(objroot ") {
			b.WriteString(objrootDef)
			break
		}
	}
	b.WriteString(pow2fDef())
	b.WriteString(preamble2)
	if e.usesStrID {
		b.WriteString("(assert (forall ((a Str) (b Str)) (! (=> (= (strid a) (strid b)) (= a b)) :pattern ((strid a) (strid b)))))\n")
	}
	if e.usesAddr {
		b.WriteString("(assert (forall ((a Int) (b Int)) (! (=> (not (= a b)) (or (<= (+ (objbase a) (objsize a)) (objbase b)) (<= (+ (objbase b) (objsize b)) (objbase a)))) :pattern ((objbase a) (objbase b)))))\n")
		b.WriteString("(assert (forall ((a Int)) (! (and (> (objbase a) 0) (>= (objsize a) 0)) :pattern ((objbase a)))))\n")
	}
	for _, f := range e.specOrder {
		used := false
		for name := range c.usedSpecs {
			if sp := e.specs[name]; sp != nil && sp.File == f {
				used = true
			}
		}
		if used {
			b.WriteString(e.specText[f])
			b.WriteString("\n")
		}
	}
	return b.String()
}

// batch: one incremental z3 session per function settles the easy
// obligations; whatever is not unsat there goes to the individual race.
func (e *Engine) batch(c *FnCtx, workDir string, idx int) {
	if len(c.obls) == 0 {
		return
	}
	var b strings.Builder
	b.WriteString("(set-option :timeout 1500)\n")
	b.WriteString(strings.Replace(e.header(c), "(set-option :produce-models true)\n", "", 1))
	next := 0
	flush := func(upto int) {
		for next < len(c.obls) && c.obls[next].Prefix <= upto {
			b.WriteString("(push 1)\n(assert (not " + c.obls[next].Goal + "))\n(check-sat)\n(pop 1)\n")
			next++
		}
	}
	for i, ln := range c.script {
		flush(i)
		l, ok := variantLine(ln, "z3")
		if !ok {
			continue
		}
		b.WriteString(l)
		b.WriteString("\n")
	}
	flush(len(c.script))
	p, err := writeQuery(workDir, fmt.Sprintf("batch%03d_%s", idx, sanitize(shortFunc(c.fn.String()))), b.String())
	if err != nil {
		return
	}
	res := solveBatch(p, len(c.obls), 30+2*len(c.obls))
	for i, o := range c.obls {
		if res[i] == "unsat" {
			o.Result = &solverResult{Status: "unsat", Backend: "z3-new", Time: 0}
			o.batch = true
		}
	}
}

func (e *Engine) discharge(obls []*Obligation, workDir string, timeoutS int, all bool, jobs int) {
	var wg sync.WaitGroup
	sem := make(chan struct{}, jobs)
	// phase 1: batches per function
	seen := map[*FnCtx]bool{}
	var ctxs []*FnCtx
	for _, o := range obls {
		if !seen[o.ctx] {
			seen[o.ctx] = true
			ctxs = append(ctxs, o.ctx)
		}
	}
	if !all {
		for i, c := range ctxs {
			wg.Add(1)
			sem <- struct{}{}
			go func(i int, c *FnCtx) {
				defer wg.Done()
				defer func() { <-sem }()
				e.batch(c, workDir, i)
			}(i, c)
		}
		wg.Wait()
	}
	for i, o := range obls {
		if o.Result != nil && o.Result.Status == "unsat" && !o.Cover && !o.Canary {
			continue
		}
		o.Result = nil
		wg.Add(1)
		sem <- struct{}{}
		go func(i int, o *Obligation) {
			defer wg.Done()
			defer func() { <-sem }()
			txt := e.queryText(o)
			o.QueryKB = len(txt) / 1024
			if len(txt) > 4<<20 {
				o.Result = &solverResult{Status: "error", Output: "query over the 4 MB cap"}
				return
			}
			name := fmt.Sprintf("q%04d_%s", i, sanitize(o.Key))
			if len(name) > 120 {
				name = name[:120]
			}
			p, err := writeQuery(workDir, name, txt)
			if err != nil {
				o.Result = &solverResult{Status: "error", Output: err.Error()}
				return
			}
			if gen := e.queryTextVariant(o, "gen"); gen != txt {
				writeQuery(workDir, name+".gen", gen)
			}
			to := timeoutS
			if (o.Canary || o.Cover) && to > 4 {
				to = 4 // expected not to be unsat: do not wait long for it
			}
			r, allr := solve(p, to, all)
			o.Result = &r
			o.All = allr
			o.queryFile = p
		}(i, o)
	}
	wg.Wait()
}
