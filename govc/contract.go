package main

// Contract files: "//@" comment blocks, in /repo/<pkg>/verif_contracts.go
// (build tag verif, comments only) for functions of /repo, and in
// /verif/contracts/*.contracts for assumed contracts of external functions.

import (
	"crypto/sha256"
	"encoding/hex"
	"fmt"
	"go/ast"
	"go/parser"
	"go/token"
	"go/types"
	"os"
	"strconv"
	"strings"
)

type Clause struct {
	Kind   string // requires ensures invariant panics_when modifies let fresh assert
	Text   string
	Expr   ast.Expr
	Canary bool
	Name   string // let name
	Loop   int
	Cond   ast.Expr // modifies ... if COND (evaluated in the pre-state)
	NoAssume bool   // check_at: proved where stated, not assumed afterwards
	File   string
	Line   int
}

type Pred struct {
	Name   string
	Params []string
	Body   ast.Expr
	Text   string
}

type Contract struct {
	Key       string
	Props     []string
	Requires  []*Clause
	Ensures   []*Clause
	Panics    *Clause
	PanicsMay bool // may_panic_when: panic only if the condition; no converse
	SchedPoint bool // other goroutines may run here: guarded monitor fields become arbitrary
	FnFacts   []*Clause
	Modifies  []*Clause
	Lets      []*Clause
	Asserts   []*Clause
	Fresh     []string
	Loops     map[int][]*Clause
	Pure      bool
	Inline    bool
	Trusted   bool   // body is not verified: assumed contract
	External  bool   // comes from /verif/contracts (not a /repo function)
	NonNil    []string
	Notes     []string
	File      string
	Line      int
	Pkg       string
	Preds     map[string]*Pred
	Raw       []string
	ReplayArgs    map[string]string
	ReplayImports []string
	// replay_field name = Go expression: stand-in for interface/func valued
	// struct fields of that name when a model is rebuilt as Go values;
	// replay_assume E restricts the models asked for to those the stand-ins fit
	ReplayFields map[string]string
	ReplayAssume []*Clause
	// assumed_ensures E: a postcondition callers rely on that the body is
	// NOT checked against (reported as an assumption in the evidence)
	AssumedEnsures []*Clause
	RecvNonNil bool
	GlobalFacts []*Clause // assume_global clauses of this function
	Reindex    bool
	NoAutoNonNil bool
}

// ghostSorts: declared ghost fields (name -> SMT sort); undeclared ones are Int.
var ghostSorts = map[string]string{}

// ghostInits: type string -> (ghost name, SMT value) for fresh allocations.
var ghostInits = map[string][][2]string{}

// globalFacts: package path -> facts about its package-level variables.
var globalFacts = map[string][]*Clause{}

// monitors: package path -> (type name, field name) pairs that are shared
// mutable state guarded by a lock. At every scheduling point (Lock, Unlock,
// Wait: contracts marked "schedpoint") these fields of every object of the
// type become arbitrary; all other fields are treated as stable.
var monitors = map[string][][2]string{}

func hash8(s string) string {
	h := sha256.Sum256([]byte(s))
	return hex.EncodeToString(h[:4])
}

func readLines(path string) []string {
	b, err := os.ReadFile(path)
	if err != nil {
		return nil
	}
	return strings.Split(string(b), "\n")
}

var clauseKinds = map[string]bool{"requires": true, "ensures": true, "invariant": true, "panics_when": true, "may_panic_when": true, "modifies": true, "let": true, "fresh": true, "fnfact": true, "replay_assume": true, "assumed_ensures": true}

// parseContracts reads one file. pkgPath prefixes relative function names.
func parseContracts(path, pkgPath string, external bool) ([]*Contract, map[string]*Pred, error) {
	lines := readLines(path)
	var out []*Contract
	preds := map[string]*Pred{}
	var cur *Contract
	var last *Clause
	finishClause := func() error {
		if last == nil {
			return nil
		}
		cl := last
		last = nil
		txt := strings.TrimSpace(cl.Text)
		cl.Text = txt
		if cl.Kind == "fresh" {
			cur.Fresh = append(cur.Fresh, strings.Fields(txt)...)
			return nil
		}
		src := txt
		if cl.Kind == "assert_at" {
			e, err := parser.ParseExpr(src)
			if err != nil {
				return fmt.Errorf("%s:%d: %v in %q", path, cl.Line, err, src)
			}
			cl.Expr = e
			cur.Asserts = append(cur.Asserts, cl)
			return nil
		}
		if cl.Kind == "let" {
			i := strings.Index(txt, "=")
			if i < 0 {
				return fmt.Errorf("%s:%d: let needs name = expr", path, cl.Line)
			}
			cl.Name = strings.TrimSpace(txt[:i])
			src = txt[i+1:]
		}
		if cl.Kind == "modifies" {
			// modifies TARGET if COND
			if j := strings.LastIndex(src, " if "); j > 0 {
				ce, err := parser.ParseExpr(src[j+4:])
				if err != nil {
					return fmt.Errorf("%s:%d: %v in modifies condition %q", path, cl.Line, err, src[j+4:])
				}
				cl.Cond = ce
				src = src[:j]
			}
		}
		if cl.Kind == "modifies" && strings.TrimSpace(src) == "heap" {
			cl.Expr = &ast.Ident{Name: "heap"}
		} else if cl.Kind == "modifies" && strings.HasSuffix(strings.TrimSpace(src), ".*") {
			s := strings.TrimSpace(src)
			e, err := parser.ParseExpr(s[:len(s)-2])
			if err != nil {
				return fmt.Errorf("%s:%d: %v in %q", path, cl.Line, err, src)
			}
			cl.Expr = &ast.StarExpr{X: &ast.CallExpr{Fun: &ast.Ident{Name: "allfields"}, Args: []ast.Expr{e}}}
		} else {
			e, err := parser.ParseExpr(src)
			if err != nil {
				return fmt.Errorf("%s:%d: %v in %q", path, cl.Line, err, src)
			}
			cl.Expr = e
		}
		// one obligation per conjunct / per direction of an iff
		if !cl.Canary && (cl.Kind == "ensures" || cl.Kind == "invariant" || cl.Kind == "requires") {
			if parts := splitExpr(cl.Expr); len(parts) > 1 {
				for k, pe := range parts {
					pc := *cl
					pc.Expr = pe
					pc.Text = fmt.Sprintf("%s [part %d: %s]", cl.Text, k+1, types.ExprString(pe))
					switch cl.Kind {
					case "requires":
						cur.Requires = append(cur.Requires, &pc)
					case "ensures":
						cur.Ensures = append(cur.Ensures, &pc)
					case "invariant":
						if cur.Loops == nil {
							cur.Loops = map[int][]*Clause{}
						}
						cur.Loops[cl.Loop] = append(cur.Loops[cl.Loop], &pc)
					}
				}
				return nil
			}
		}
		switch cl.Kind {
		case "requires":
			cur.Requires = append(cur.Requires, cl)
		case "ensures":
			cur.Ensures = append(cur.Ensures, cl)
		case "panics_when":
			cur.Panics = cl
		case "may_panic_when":
			cur.Panics = cl
			cur.PanicsMay = true
		case "fnfact":
			cur.FnFacts = append(cur.FnFacts, cl)
		case "replay_assume":
			cur.ReplayAssume = append(cur.ReplayAssume, cl)
		case "assumed_ensures":
			cur.AssumedEnsures = append(cur.AssumedEnsures, cl)
		case "modifies":
			cur.Modifies = append(cur.Modifies, cl)
		case "let":
			cur.Lets = append(cur.Lets, cl)
		case "invariant":
			if cur.Loops == nil {
				cur.Loops = map[int][]*Clause{}
			}
			cur.Loops[cl.Loop] = append(cur.Loops[cl.Loop], cl)
		}
		return nil
	}
	for i, raw := range lines {
		ln := strings.TrimSpace(raw)
		if !strings.HasPrefix(ln, "//@") {
			continue
		}
		body := strings.TrimPrefix(ln, "//@")
		if strings.HasPrefix(strings.TrimSpace(body), "|") {
			if last == nil {
				return nil, nil, fmt.Errorf("%s:%d: continuation without clause", path, i+1)
			}
			last.Text += " " + strings.TrimSpace(strings.TrimPrefix(strings.TrimSpace(body), "|"))
			continue
		}
		if err := finishClause(); err != nil {
			return nil, nil, err
		}
		f := strings.Fields(body)
		if len(f) == 0 {
			continue
		}
		rest := func(n int) string {
			s := strings.TrimSpace(body)
			for k := 0; k < n; k++ {
				s = strings.TrimSpace(s)
				j := strings.IndexAny(s, " \t")
				if j < 0 {
					return ""
				}
				s = s[j:]
			}
			return strings.TrimSpace(s)
		}
		switch f[0] {
		case "func":
			name := rest(1)
			key := name
			if !external {
				key = qualify(name, pkgPath)
			}
			cur = &Contract{Key: key, File: path, Line: i + 1, External: external, Pkg: pkgPath, Preds: preds, RecvNonNil: true}
			out = append(out, cur)
		case "monitor":
			// monitor TypeName guards f1 f2 ...
			if len(f) >= 4 && f[2] == "guards" {
				for _, fld := range f[3:] {
					monitors[pkgPath] = append(monitors[pkgPath], [2]string{f[1], fld})
				}
			}
		case "ghostinit":
			// ghostinit <type string> <ghost name> <smt value>: value of the
			// ghost field of a freshly allocated object of that type
			if len(f) >= 4 {
				ghostInits[f[1]] = append(ghostInits[f[1]], [2]string{f[2], strings.TrimSpace(rest(3))})
			}
		case "assume_global":
			// a fact about package-level variables, assumed at the entry of
			// every function of this package (trusted: established by package
			// initialisation and never invalidated)
			txt := rest(1)
			e, err := parser.ParseExpr(txt)
			if err != nil {
				return nil, nil, fmt.Errorf("%s:%d: %v in assume_global", path, i+1, err)
			}
			gcl := &Clause{Kind: "assume_global", Text: txt, Expr: e, File: path, Line: i + 1}
			if cur != nil {
				// inside a function's contract: assumed at the entry of that function only
				cur.GlobalFacts = append(cur.GlobalFacts, gcl)
			} else {
				globalFacts[pkgPath] = append(globalFacts[pkgPath], gcl)
			}
		case "ghostdecl":
			// ghostdecl name Sort   (file level): a ghost field of objects
			if len(f) >= 3 {
				ghostSorts[f[1]] = strings.TrimSpace(rest(2))
			}
		case "pred":
			// pred name(a, b) = expr
			txt := rest(1)
			eqi := strings.Index(txt, "=")
			op := strings.Index(txt, "(")
			cp := strings.Index(txt, ")")
			if eqi < 0 || op < 0 || cp < 0 || cp > eqi {
				return nil, nil, fmt.Errorf("%s:%d: bad pred", path, i+1)
			}
			p := &Pred{Name: strings.TrimSpace(txt[:op]), Text: txt}
			for _, a := range strings.Split(txt[op+1:cp], ",") {
				if a = strings.TrimSpace(a); a != "" {
					p.Params = append(p.Params, a)
				}
			}
			// the body may continue on following lines: collect them here
			bodyTxt := txt[eqi+1:]
			for j := i + 1; j < len(lines); j++ {
				l2 := strings.TrimSpace(lines[j])
				if !strings.HasPrefix(l2, "//@") {
					break
				}
				b2 := strings.TrimSpace(strings.TrimPrefix(l2, "//@"))
				if !strings.HasPrefix(b2, "|") {
					break
				}
				bodyTxt += " " + strings.TrimSpace(strings.TrimPrefix(b2, "|"))
				lines[j] = ""
			}
			e, err := parser.ParseExpr(bodyTxt)
			if err != nil {
				return nil, nil, fmt.Errorf("%s:%d: %v in pred %s", path, i+1, err, p.Name)
			}
			p.Body = e
			preds[p.Name] = p
		default:
			if cur == nil {
				continue // free text before the first func
			}
			cur.Raw = append(cur.Raw, strings.TrimSpace(body))
			canary := false
			k := 0
			if f[0] == "canary" {
				canary = true
				k = 1
			}
			if k >= len(f) {
				continue
			}
			switch f[k] {
			case "props":
				cur.Props = append(cur.Props, f[k+1:]...)
			case "pure":
				cur.Pure = true
			case "inline":
				cur.Inline = true
			case "reindex":
				// quantifiers over x[i] are stated over absolute positions in x's
				// object while this function is verified (see evalCtx.quant)
				cur.Reindex = true
			case "schedpoint":
				cur.SchedPoint = true
			case "trusted":
				cur.Trusted = true
			case "nonnil":
				cur.NonNil = append(cur.NonNil, f[k+1:]...)
			case "maynil":
				cur.RecvNonNil = false
			case "note":
				cur.Notes = append(cur.Notes, rest(k+1))
			case "replay_arg":
				// replay_arg name = Go expression
				txt := rest(k + 1)
				if j := strings.Index(txt, "="); j > 0 {
					if cur.ReplayArgs == nil {
						cur.ReplayArgs = map[string]string{}
					}
					cur.ReplayArgs[strings.TrimSpace(txt[:j])] = strings.TrimSpace(txt[j+1:])
				}
			case "replay_field":
				txt := rest(k + 1)
				if j := strings.Index(txt, "="); j > 0 {
					if cur.ReplayFields == nil {
						cur.ReplayFields = map[string]string{}
					}
					cur.ReplayFields[strings.TrimSpace(txt[:j])] = strings.TrimSpace(txt[j+1:])
				}
			case "mark":
				// mark NAME "source text": the state just before the line
				// containing the text is remembered; at(NAME, e) evaluates e in it
				txt := rest(k + 1)
				j := strings.Index(txt, "\"")
				if j <= 0 || !strings.HasSuffix(txt, "\"") || len(txt) < j+2 {
					return nil, nil, fmt.Errorf("%s:%d: mark NAME \"text\" expected", path, i+1)
				}
				cur.Asserts = append(cur.Asserts, &Clause{Kind: "mark", Name: txt[j+1 : len(txt)-1], Text: strings.TrimSpace(txt[:j]), File: path, Line: i + 1})
			case "assert_at", "check_at":
				// assert_at "source text" expr : expr must hold just before the
				// first instruction of the line containing the text (and is
				// assumed from there on); check_at: the same, but not assumed
				// afterwards (keeps later obligations small)
				txt := rest(k + 1)
				if !strings.HasPrefix(txt, "\"") {
					return nil, nil, fmt.Errorf("%s:%d: assert_at needs a quoted marker", path, i+1)
				}
				j := strings.Index(txt[1:], "\"")
				if j < 0 {
					return nil, nil, fmt.Errorf("%s:%d: assert_at: unterminated marker", path, i+1)
				}
				marker := txt[1 : 1+j]
				last = &Clause{Kind: "assert_at", Name: marker, Text: strings.TrimSpace(txt[j+2:]), Canary: canary, File: path, Line: i + 1, NoAssume: f[k] == "check_at"}
			case "replay_import":
				cur.ReplayImports = append(cur.ReplayImports, f[k+1:]...)
			case "loop":
				// loop N invariant E
				if len(f) < k+3 {
					return nil, nil, fmt.Errorf("%s:%d: bad loop clause", path, i+1)
				}
				n, err := strconv.Atoi(strings.TrimSuffix(f[k+1], ":"))
				if err != nil {
					return nil, nil, fmt.Errorf("%s:%d: bad loop ordinal", path, i+1)
				}
				if f[k+2] != "invariant" {
					return nil, nil, fmt.Errorf("%s:%d: expected 'invariant'", path, i+1)
				}
				last = &Clause{Kind: "invariant", Loop: n, Text: rest(k + 3), Canary: canary, File: path, Line: i + 1}
			default:
				if !clauseKinds[f[k]] {
					return nil, nil, fmt.Errorf("%s:%d: unknown clause %q", path, i+1, f[k])
				}
				last = &Clause{Kind: f[k], Text: rest(k + 1), Canary: canary, File: path, Line: i + 1}
			}
		}
	}
	if err := finishClause(); err != nil {
		return nil, nil, err
	}
	return out, preds, nil
}

// splitExpr splits top-level conjunctions and iff(a,b) into parts.
func splitExpr(e ast.Expr) []ast.Expr {
	switch t := e.(type) {
	case *ast.ParenExpr:
		return splitExpr(t.X)
	case *ast.BinaryExpr:
		if t.Op == token.LAND {
			return append(splitExpr(t.X), splitExpr(t.Y)...)
		}
	case *ast.CallExpr:
		if id, ok := t.Fun.(*ast.Ident); ok && len(t.Args) == 2 {
			switch id.Name {
			case "iff":
				imp := func(a, b ast.Expr) ast.Expr {
					return &ast.CallExpr{Fun: &ast.Ident{Name: "implies"}, Args: []ast.Expr{a, b}}
				}
				return []ast.Expr{imp(t.Args[0], t.Args[1]), imp(t.Args[1], t.Args[0])}
			case "implies":
				// implies(a, b && c) -> implies(a,b), implies(a,c)
				rhs := splitExpr(t.Args[1])
				if len(rhs) > 1 {
					var out []ast.Expr
					for _, r := range rhs {
						out = append(out, &ast.CallExpr{Fun: &ast.Ident{Name: "implies"}, Args: []ast.Expr{t.Args[0], r}})
					}
					return out
				}
			}
		}
	}
	return []ast.Expr{e}
}

// qualify turns "(*Cipher).XORKeyStream" / "Key" into ssa's full name.
func qualify(name, pkg string) string {
	if strings.HasPrefix(name, "(*") {
		return "(*" + pkg + "." + name[2:]
	}
	if strings.HasPrefix(name, "(") {
		return "(" + pkg + "." + name[1:]
	}
	return pkg + "." + name
}

func (con *Contract) hasProp(id string) bool {
	for _, p := range con.Props {
		if p == id {
			return true
		}
	}
	return false
}
