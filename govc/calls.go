package main

// Calls: builtins, contract application (modular), inlining, havoc.

import (
	"fmt"
	"go/token"
	"go/types"
	"strings"

	"golang.org/x/tools/go/ssa"
)

type callArgs struct {
	fn      *ssa.Function // static callee, or nil
	closure *Val
	invoke  *types.Func
	recv    *Val
	args    []Val
	builtin string
	sig     *types.Signature
	dynamic bool
	globalFn *ssa.Global // dynamic call through this package-level func variable
}

func (c *FnCtx) snapshotCallArgs(fr *frame, cc *ssa.CallCommon) callArgs {
	var ca callArgs
	ca.sig = cc.Signature()
	if cc.IsInvoke() {
		ca.invoke = cc.Method
		r := c.value(fr, cc.Value)
		ca.recv = &r
		for _, a := range cc.Args {
			ca.args = append(ca.args, c.value(fr, a))
		}
		return ca
	}
	switch f := cc.Value.(type) {
	case *ssa.Builtin:
		ca.builtin = f.Name()
	case *ssa.Function:
		ca.fn = f
	case *ssa.MakeClosure:
		v := c.value(fr, f)
		ca.closure = &v
	default:
		v := c.value(fr, cc.Value)
		if v.K == kFunc && v.Fn != nil {
			ca.closure = &v
		} else {
			ca.dynamic = true
			if u, ok := cc.Value.(*ssa.UnOp); ok && u.Op == token.MUL {
				if g, ok := u.X.(*ssa.Global); ok && g.Pkg != nil {
					ca.globalFn = g
				}
			}
		}
	}
	for i, a := range cc.Args {
		v := c.value(fr, a)
		if ca.builtin == "" {
			var pt types.Type
			if ca.sig != nil {
				np := ca.sig.Params().Len()
				k := i
				if ca.sig.Recv() != nil {
					k = i - 1
				}
				if k >= 0 && k < np {
					pt = ca.sig.Params().At(k).Type()
				} else if k < 0 {
					pt = ca.sig.Recv().Type()
				}
			}
			if pt != nil {
				v = c.coerce(v, pt)
			}
		}
		ca.args = append(ca.args, v)
	}
	return ca
}

func (c *FnCtx) call(fr *frame, st *State, cc *ssa.CallCommon, pos token.Pos, res ssa.Value) *Val {
	ca := c.snapshotCallArgs(fr, cc)
	var rt types.Type
	if res != nil {
		rt = res.Type()
	}
	return c.doCall(fr, st, ca, pos, rt)
}

func (c *FnCtx) runDefers(fr *frame, st *State) {
	for i := len(fr.defers) - 1; i >= 0; i-- {
		d := fr.defers[i]
		var rt types.Type = d.Common().Signature().Results()
		c.doCall(fr, st, fr.deferArgs[i], d.Pos(), rt)
	}
}

func tupleOrSingle(rt types.Type) []types.Type {
	if rt == nil {
		return nil
	}
	if t, ok := rt.(*types.Tuple); ok {
		var out []types.Type
		for i := 0; i < t.Len(); i++ {
			out = append(out, t.At(i).Type())
		}
		return out
	}
	return []types.Type{rt}
}

func packResults(rt types.Type, vals []Val) *Val {
	if rt == nil {
		return nil
	}
	if t, ok := rt.(*types.Tuple); ok {
		if t.Len() == 0 {
			return nil
		}
		v := Val{K: kTuple, T: rt, Fields: vals}
		return &v
	}
	if len(vals) == 0 {
		return nil
	}
	return &vals[0]
}

func (c *FnCtx) doCall(fr *frame, st *State, ca callArgs, pos token.Pos, rt types.Type) *Val {
	if ca.builtin != "" {
		return c.builtin(fr, st, ca, pos, rt)
	}
	var key string
	var callee *ssa.Function
	switch {
	case ca.invoke != nil:
		key = ca.invoke.FullName()
		// a contract filed under the static interface type of the receiver
		// (e.g. (hash.Hash).Write, whose method is declared in io.Writer) wins
		if ca.recv != nil && ca.recv.T != nil {
			alt := "(" + types.TypeString(ca.recv.T, nil) + ")." + ca.invoke.Name()
			if alt != key && c.eng.contractFor(alt) != nil {
				key = alt
			}
		}
	case ca.fn != nil:
		callee = ca.fn
		key = callee.String()
		if callee.Synthetic != "" && strings.Contains(callee.Synthetic, "wrapper") {
			// bound method / thunk wrappers: not expected in static calls
		}
	case ca.closure != nil:
		callee = ca.closure.Fn
		key = callee.String()
	case ca.globalFn != nil:
		// call through a package-level variable of function type: a contract
		// filed under the variable's name is an assumption about its value
		key = ca.globalFn.Pkg.Pkg.Path() + "." + ca.globalFn.Name()
		if con := c.eng.contractFor(key); con != nil {
			c.eng.noteAssumed(con)
		}
	}
	if key != "" {
		if m, ok := intrinsics[key]; ok {
			return m(c, fr, st, ca, pos, rt)
		}
		if con := c.eng.contractFor(key); con != nil && !con.Inline {
			return c.applyContract(fr, st, con, ca, pos, rt, key)
		}
	}
	if callee != nil && len(callee.Blocks) > 0 {
		con := c.eng.contractFor(key)
		inl := (con != nil && con.Inline) || callee.Parent() != nil || c.eng.autoInline(callee)
		if inl && c.depth < 6 {
			return c.inline(fr, st, callee, con, ca, pos, rt)
		}
	}
	// unknown callee: arbitrary result, arbitrary heap
	what := key
	if what == "" {
		what = "dynamic call"
	}
	c.note("%s: call to %s at %s has no contract: result and heap havocked", shortFunc(c.fn.String()), shortFunc(what), c.posString(pos))
	c.havocAll(st, what)
	var vals []Val
	for i, t := range tupleOrSingle(rt) {
		vals = append(vals, c.freshVal(st, t, fmt.Sprintf("res%d", i)))
	}
	return packResults(rt, vals)
}

// havocAll forgets the whole heap except the rows of non-escaped locals.
func (c *FnCtx) havocAll(st *State, why string) {
	prev := st.clone()
	ep := c.newEpoch()
	ep.prev = prev
	for _, la := range c.locals {
		if la.escaped {
			continue
		}
		var lk []leafKey
		leafKeysOf(rootOf(la.typ), nil, la.typ, &lk)
		kr := keepRef{ref: la.ref}
		for _, k := range lk {
			if !k.array {
				kr.keys = append(kr.keys, k.key)
			}
		}
		ep.keepRefs = append(ep.keepRefs, kr)
	}
	st.ep = ep
	st.heap = map[string]string{}
	nw := c.declare("wm", "Int")
	c.assume(st, sx(">=", nw, st.wm))
	st.wm = nw
	if c.writeHook != nil {
		c.writeHook("*", "", true)
	}
}

func (c *FnCtx) inline(fr *frame, st *State, callee *ssa.Function, con *Contract, ca callArgs, pos token.Pos, rt types.Type) *Val {
	nf := &frame{fn: callee, regs: map[ssa.Value]Val{}, con: con}
	if len(ca.args) != len(callee.Params) {
		bail("inline %s: %d args for %d params", callee, len(ca.args), len(callee.Params))
	}
	for i, p := range callee.Params {
		nf.regs[p] = ca.args[i]
	}
	if ca.closure != nil {
		for i, fv := range callee.FreeVars {
			nf.regs[fv] = ca.closure.Bind[i]
		}
	}
	c.depth++
	savedFn := c.fn
	rst, vals := c.run(nf, st.clone())
	c.depth--
	c.fn = savedFn
	// continue in the merged return state
	st.guard = rst.guard
	st.heap = rst.heap
	st.ep = rst.ep
	st.wm = rst.wm
	return packResults(rt, vals)
}

// ---- builtins ----

func (c *FnCtx) builtin(fr *frame, st *State, ca callArgs, pos token.Pos, rt types.Type) *Val {
	a := ca.args
	switch ca.builtin {
	case "len":
		v := c.lenOf(st, a[0])
		return &v
	case "cap":
		switch a[0].K {
		case kSlice:
			v := intVal(types.Typ[types.Int], a[0].Cap)
			return &v
		case kArray:
			v := intVal(types.Typ[types.Int], num(a[0].T.Underlying().(*types.Array).Len()))
			return &v
		case kPtr:
			v := intVal(types.Typ[types.Int], num(pointee(a[0]).Underlying().(*types.Array).Len()))
			return &v
		}
	case "min", "max":
		fn := "imin"
		if ca.builtin == "max" {
			fn = "imax"
		}
		if a[0].K != kInt {
			bail("min/max on non-integers")
		}
		t := a[0].S
		for _, x := range a[1:] {
			t = sx(fn, t, x.S)
		}
		v := intVal(rt, c.def("mm", "Int", t))
		return &v
	case "copy":
		v := c.copyBuiltin(st, a[0], a[1])
		return &v
	case "append":
		v := c.appendBuiltin(st, a[0], a[1], rt)
		return &v
	case "print", "println":
		return nil
	case "delete":
		c.mapDelete(st, a[0], a[1])
		return nil
	case "ssa:wrapnilchk":
		return &a[0]
	case "panic":
		c.oblige(st, "panic", "explicit panic unreachable", "false", pos, "")
		st.guard = "false"
		return nil
	case "recover":
		bail("recover")
	case "clear":
		bail("clear builtin")
	}
	bail("builtin %s", ca.builtin)
	return nil
}

func (c *FnCtx) lenOf(st *State, x Val) Val {
	it := types.Typ[types.Int]
	switch x.K {
	case kSlice:
		return intVal(it, x.Len)
	case kStr:
		return intVal(it, sx("slen", x.S))
	case kArray:
		return intVal(it, num(x.T.Underlying().(*types.Array).Len()))
	case kPtr:
		return intVal(it, num(pointee(x).Underlying().(*types.Array).Len()))
	case kMap:
		v := intVal(it, sx("select", c.heapGet(st, "M_size", "Int"), x.S, "0"))
		_ = v
		n := c.def("mlen", "Int", ite(eq(x.S, "0"), "0", sx("select", sx("select", c.heapGet(st, "M_size", "Int"), x.S), "0")))
		c.assume(st, sx(">=", n, "0"))
		return intVal(it, n)
	}
	bail("len of kind %d", x.K)
	return Val{}
}

// elemKeys: heap keys that hold the elements of a slice with element type el
func elemKeys(el types.Type) []leafKey {
	var lk []leafKey
	leafKeysOf(el, nil, el, &lk)
	return lk
}

func (c *FnCtx) copyBuiltin(st *State, dst, src Val) Val {
	it := types.Typ[types.Int]
	if src.K == kStr {
		n := c.def("n", "Int", sx("imin", dst.Len, sx("slen", src.S)))
		key := heapKey(dst.Root, nil)
		h := c.heapGet(st, key, "Int")
		old := c.defAlways("row", "(Array Int Int)", sx("select", h, dst.Ref))
		row := c.defRow("Int", fmt.Sprintf("(ite (and (<= %s i) (< i (+ %s %s))) (sat %s (- i %s)) (select %s i))", dst.Off, dst.Off, n, src.S, dst.Off, old))
		c.heapWriteRow(st, key, "Int", dst.Ref, row)
		return intVal(it, n)
	}
	n := c.def("n", "Int", sx("imin", dst.Len, src.Len))
	for _, k := range elemKeys(dst.Root) {
		if k.array {
			bail("copy of structs with array fields")
		}
		ls := sortOf(k.typ)
		h := c.heapGet(st, k.key, ls)
		old := c.defAlways("row", "(Array Int "+ls+")", sx("select", h, dst.Ref))
		srow := c.defAlways("row", "(Array Int "+ls+")", sx("select", h, src.Ref))
		row := c.defRow(ls, fmt.Sprintf("(ite (and (<= %s i) (< i (+ %s %s))) (select %s (+ (- i %s) %s)) (select %s i))", dst.Off, dst.Off, n, srow, dst.Off, src.Off, old))
		c.heapWriteRow(st, k.key, ls, dst.Ref, row)
	}
	return intVal(it, n)
}

func (c *FnCtx) appendBuiltin(st *State, s, t Val, rt types.Type) Val {
	el := rt.Underlying().(*types.Slice).Elem()
	var n string
	if t.K == kStr {
		n = sx("slen", t.S)
	} else if t.K == kSlice {
		n = t.Len
	} else {
		bail("append of kind %d", t.K)
	}
	n = c.def("n", "Int", n)
	newLen := c.def("nl", "Int", add(s.Len, n))
	fits := c.def("fits", "Bool", sx("<=", newLen, s.Cap))
	fresh := c.alloc(st, types.NewArray(el, 0), true)
	ncap := c.declare("ncap", "Int")
	c.assume(st, and(sx(">=", ncap, newLen), sx("<=", ncap, "281474976710656")))
	c.oblige(st, "bounds", "append: resulting length within the runtime limit", sx("<=", newLen, "281474976710656"), token.NoPos, "append-limit")
	res := Val{K: kSlice, T: rt, Root: el,
		Ref: c.def("ap_ref", "Int", ite(fits, s.Ref, fresh)),
		Off: c.def("ap_off", "Int", ite(fits, s.Off, "0")),
		Len: newLen,
		Cap: c.def("ap_cap", "Int", ite(fits, s.Cap, ncap))}
	for _, k := range elemKeys(el) {
		if k.array {
			bail("append of structs with array fields")
		}
		ls := sortOf(k.typ)
		h := c.heapGet(st, k.key, ls)
		old := c.defAlways("row", "(Array Int "+ls+")", sx("select", h, s.Ref))
		var srcAt string
		if t.K == kStr {
			srcAt = fmt.Sprintf("(sat %s (- i (+ %s %s)))", t.S, res.Off, s.Len)
		} else {
			srow := c.defAlways("row", "(Array Int "+ls+")", sx("select", h, t.Ref))
			srcAt = fmt.Sprintf("(select %s (+ (- i (+ %s %s)) %s))", srow, res.Off, s.Len, t.Off)
		}
		// prefix copied (or kept), new elements written, rest of the object kept when in place
		row := c.defRow(ls, fmt.Sprintf("(ite (and (<= (+ %s %s) i) (< i (+ %s %s))) %s (ite %s (select %s i) (select %s (+ (- i %s) %s))))",
			res.Off, s.Len, res.Off, newLen, srcAt, fits, old, old, res.Off, s.Off))
		c.heapWriteRow(st, k.key, ls, res.Ref, row)
	}
	return res
}

// ---- interfaces ----

func (c *FnCtx) typeID(t types.Type) string {
	k := types.TypeString(t, nil)
	id, ok := c.eng.typeIDs[k]
	if !ok {
		id = len(c.eng.typeIDs) + 1
		c.eng.typeIDs[k] = id
	}
	return num(int64(id))
}

func boxName(t types.Type) string { return "box_" + typeName(t) }

func (c *FnCtx) makeInterface(fr *frame, st *State, t *ssa.MakeInterface) Val {
	x := c.value(fr, t.X)
	xt := t.X.Type()
	var id string
	switch x.K {
	case kPtr:
		// a pointer boxed in an interface: identity = the pointer
		if x.Idx != "0" || len(x.Path) != 0 {
			bail("interior pointer boxed in interface")
		}
		id = c.declare("ifc", "Int")
		c.assumeRaw(and(eq(sx("unbox", id), x.Ref), not(eq(id, "0")), eq(sx("typeof", id), c.typeID(xt))))
		c.assumeRaw(eq(id, sx("boxptr", c.typeID(xt), x.Ref)))
	case kInt, kStr, kBool:
		id = c.declare("ifc", "Int")
		c.assumeRaw(and(not(eq(id, "0")), eq(sx("typeof", id), c.typeID(xt))))
		switch x.K {
		case kInt:
			c.assumeRaw(eq(sx("unbox", id), x.S))
		case kStr:
			c.assumeRaw(eq(sx("unboxS", id), x.S))
		case kBool:
			c.assumeRaw(eq(sx("unboxB", id), x.S))
		}
	case kStruct:
		id = c.declare("ifc", "Int")
		c.assumeRaw(and(not(eq(id, "0")), eq(sx("typeof", id), c.typeID(xt))))
		c.eng.boxed[id] = x
	default:
		id = c.declare("ifc", "Int")
		c.assumeRaw(and(not(eq(id, "0")), eq(sx("typeof", id), c.typeID(xt))))
	}
	c.assume(st, sx("<", id, st.wm)) // interface ids share the reference space bound (harmless)
	return Val{K: kIface, T: t.Type(), S: id}
}

func (c *FnCtx) typeAssert(fr *frame, st *State, t *ssa.TypeAssert) Val {
	x := c.value(fr, t.X)
	at := t.AssertedType
	var ok string
	var val Val
	if types.IsInterface(at) {
		// interface-to-interface: succeeds iff non-nil and dynamic type implements it (unknown)
		okc := c.declare("implements", "Bool")
		// ... except for the dynamic types this run has a tag for: go/types decides
		if it, isI := at.Underlying().(*types.Interface); isI {
			var names []string
			for name := range c.eng.typeIDs {
				names = append(names, name)
			}
			sortedStrings(names)
			for _, name := range names {
				dt := c.eng.resolveTypeName(name)
				if dt == nil {
					continue
				}
				is := eq(sx("typeof", x.S), num(int64(c.eng.typeIDs[name])))
				if types.Implements(dt, it) {
					c.assumeRaw(implies(is, okc))
				} else {
					c.assumeRaw(implies(is, not(okc)))
				}
			}
		}
		ok = and(not(eq(x.S, "0")), okc)
		val = Val{K: kIface, T: at, S: x.S}
	} else {
		ok = and(not(eq(x.S, "0")), eq(sx("typeof", x.S), c.typeID(at)))
		switch kindOf(at) {
		case kPtr:
			val = ptrVal(at, sx("unbox", x.S), "0")
		case kInt:
			val = intVal(at, sx("unbox", x.S))
		case kStr:
			val = strVal(at, sx("unboxS", x.S))
		case kBool:
			val = Val{K: kBool, T: at, S: sx("unboxB", x.S)}
		default:
			if b, okb := c.eng.boxed[x.S]; okb {
				val = b
			} else {
				val = c.freshVal(st, at, "unboxed")
			}
		}
	}
	if t.CommaOk {
		okn := c.def("taok", "Bool", ok)
		return Val{K: kTuple, T: t.Type(), Fields: []Val{val, boolVal(okn)}}
	}
	c.oblige(st, "conv", "type assertion succeeds", ok, t.Pos(), "")
	if val.K == kInt || val.K == kPtr {
		c.assumeWellTyped(st, val)
	}
	return val
}

// ---- maps (abstract): M_dom/M_val keyed per map type, M_size ----

func (c *FnCtx) mapKeys(t types.Type) (domKey, valKey string, mt *types.Map) {
	mt = t.Underlying().(*types.Map)
	n := typeName(mt)
	return "MD_" + n, "MV_" + n, mt
}

func (c *FnCtx) mapSorts(mt *types.Map) (ks, vs string) {
	return sortOf(mt.Key()), sortOf(mt.Elem())
}

// Maps are stored as heap rows indexed by an encoding of the key: only Int-sorted and Str keys.
func (c *FnCtx) mapKeyIndex(mt *types.Map, k Val) string {
	switch k.K {
	case kInt, kIface, kOpaque:
		return k.S
	case kStr:
		t := sx("strid", k.S)
		if strings.Contains(k.S, "_q") {
			// key mentions a bound variable: fall back to the quantified
			// injectivity axiom
				return t
		}
		// injectivity without a quantifier: strid has a left inverse
		if c.stridSeen == nil {
			c.stridSeen = map[string]bool{}
		}
		if !c.stridSeen[k.S] {
			c.stridSeen[k.S] = true
			c.assumeRaw(eq(sx("strof", t), k.S))
		}
		return t
	}
	bail("map key kind %d", k.K)
	return ""
}

func (c *FnCtx) makeMap(st *State, t types.Type) Val {
	ref := c.alloc(st, types.NewArray(types.Typ[types.Int], 0), true)
	dk, _, _ := c.mapKeys(t)
	c.heapWriteRow(st, dk, "Bool", ref, "((as const (Array Int Bool)) false)")
	c.heapWriteRow(st, "M_size", "Int", ref, "((as const (Array Int Int)) 0)")
	return Val{K: kMap, T: t, S: ref}
}

func (c *FnCtx) mapLookup(fr *frame, st *State, t *ssa.Lookup) Val {
	m := c.value(fr, t.X)
	k := c.value(fr, t.Index)
	dk, vk, mt := c.mapKeys(t.X.Type())
	if kindOf(mt.Elem()) == kStruct {
		bail("map with struct values")
	}
	if mt.Key().Underlying() == types.Typ[types.String].Underlying() {
	}
	ki := c.mapKeyIndex(mt, k)
	vs := sortOf(mt.Elem())
	dom := sx("select", sx("select", c.heapGet(st, dk, "Bool"), m.S), ki)
	present := c.def("has", "Bool", and(not(eq(m.S, "0")), dom))
	raw := sx("select", sx("select", c.heapGet(st, vk, vs), m.S), ki)
	z := c.zero(mt.Elem())
	v := fromTerm(mt.Elem(), c.def("mv", vs, ite(present, raw, toTerm(z))))
	c.assumeWellTyped(st, v)
	if t.CommaOk {
		return Val{K: kTuple, T: t.Type(), Fields: []Val{v, boolVal(present)}}
	}
	return v
}

func (c *FnCtx) mapUpdate(fr *frame, st *State, t *ssa.MapUpdate) {
	m := c.value(fr, t.Map)
	k := c.value(fr, t.Key)
	v := c.coerce(c.value(fr, t.Value), t.Value.Type())
	dk, vk, mt := c.mapKeys(t.Map.Type())
	if mt.Key().Underlying() == types.Typ[types.String].Underlying() {
	}
	c.oblige(st, "nil", "assignment to entry in nil map", not(eq(m.S, "0")), t.Pos(), "")
	ki := c.mapKeyIndex(mt, k)
	vs := sortOf(mt.Elem())
	dom := sx("select", sx("select", c.heapGet(st, dk, "Bool"), m.S), ki)
	sz := sx("select", sx("select", c.heapGet(st, "M_size", "Int"), m.S), "0")
	c.heapWrite(st, "M_size", "Int", m.S, "0", ite(dom, sz, add(sz, "1")))
	c.heapWrite(st, dk, "Bool", m.S, ki, "true")
	c.heapWrite(st, vk, vs, m.S, ki, toTerm(v))
}

func (c *FnCtx) mapDelete(st *State, m, k Val) {
	dk, _, mt := c.mapKeys(m.T)
	ki := c.mapKeyIndex(mt, k)
	dom := sx("select", sx("select", c.heapGet(st, dk, "Bool"), m.S), ki)
	sz := sx("select", sx("select", c.heapGet(st, "M_size", "Int"), m.S), "0")
	c.heapWrite(st, "M_size", "Int", m.S, "0", ite(and(not(eq(m.S, "0")), dom), sub(sz, "1"), sz))
	c.heapWrite(st, dk, "Bool", m.S, ki, "false")
}

// range over a map or string: an iterator whose Next yields an arbitrary
// not-yet-visited key (ghost visited set kept in the iterator value).
func (c *FnCtx) rangeInit(fr *frame, st *State, t *ssa.Range) Val {
	x := c.value(fr, t.X)
	if x.K == kStr {
		bail("range over string (rune decoding)")
	}
	it := Val{K: kTuple, T: t.Type(), Fields: []Val{x}}
	return it
}

func (c *FnCtx) rangeNext(fr *frame, st *State, t *ssa.Next) Val {
	it := c.value(fr, t.Iter)
	m := it.Fields[0]
	if t.IsString {
		bail("range over string")
	}
	dk, vk, mt := c.mapKeys(m.T)
	if mt.Key().Underlying() == types.Typ[types.String].Underlying() {
	}
	// Arbitrary key of the domain; "ok" arbitrary. This over-approximates
	// iteration (any key any number of times), which is sound for safety.
	ok := c.declare("rng_ok", "Bool")
	kv := c.freshVal(st, mt.Key(), "rng_k")
	ki := c.mapKeyIndex(mt, kv)
	dom := sx("select", sx("select", c.heapGet(st, dk, "Bool"), m.S), ki)
	c.assume(st, implies(ok, and(not(eq(m.S, "0")), dom)))
	inLoop := false
	for _, l := range fr.loops {
		if l.blocks[t.Block()] {
			inLoop = true
		}
	}
	if !inLoop {
		// the only Next of this iteration (the body always leaves the loop):
		// it yields a key exactly when the map is not empty
		sz := sx("select", sx("select", c.heapGet(st, "M_size", "Int"), m.S), "0")
		c.assume(st, eq(ok, and(not(eq(m.S, "0")), sx(">", sz, "0"))))
	}
	vs := sortOf(mt.Elem())
	vv := fromTerm(mt.Elem(), c.def("rng_v", vs, sx("select", sx("select", c.heapGet(st, vk, vs), m.S), ki)))
	c.assumeWellTyped(st, vv)
	return Val{K: kTuple, T: t.Type(), Fields: []Val{boolVal(ok), kv, vv}}
}
