package main

// Symbolic values. Every Go value is a small tree whose leaves are SMT terms.

import (
	"fmt"
	"go/types"
	"math/big"
	"strings"

	"golang.org/x/tools/go/ssa"
)

type kind int

const (
	kInt    kind = iota // every integer type; S is an Int term
	kBool               // S is a Bool term
	kStr                // S is a Str term
	kPtr                // Ref, Idx; static Root/Path
	kSlice              // Ref, Off, Len, Cap
	kStruct             // Fields
	kArray              // S is an (Array Int leaf) term
	kIface              // S is an Int term (0 = nil)
	kTuple              // Fields
	kMap                // S is an Int ref (0 = nil)
	kFunc               // Fn/Bind or S opaque Int
	kOpaque             // chan, float, complex, unsafe.Pointer ...: S is an Int term
	kMath               // contract-level mathematical value of sort Sort (S term)
)

type Val struct {
	K      kind
	T      types.Type // Go type, nil for kMath
	S      string
	Ref    string
	Idx    string
	Off    string
	Len    string
	Cap    string
	Root   types.Type // element type of the pointed-to / underlying object
	Path   []int      // field path below Root (pointers only)
	Fields []Val
	Fn     *ssa.Function
	Bind   []Val
	Sort   string // for kMath
}

type unsupported struct{ msg string }

func (u unsupported) Error() string { return u.msg }

func bail(format string, a ...interface{}) {
	panic(unsupported{fmt.Sprintf(format, a...)})
}

func intVal(t types.Type, s string) Val  { return Val{K: kInt, T: t, S: s} }
func boolVal(s string) Val               { return Val{K: kBool, T: types.Typ[types.Bool], S: s} }
func mathInt(s string) Val               { return Val{K: kInt, T: nil, S: s} }
func mathVal(sort, s string) Val         { return Val{K: kMath, Sort: sort, S: s} }
func strVal(t types.Type, s string) Val  { return Val{K: kStr, T: t, S: s} }

// intInfo describes a Go integer type.
type intInfo struct {
	bits   uint
	signed bool
}

func intInfoOf(t types.Type) (intInfo, bool) {
	b, ok := t.Underlying().(*types.Basic)
	if !ok {
		return intInfo{}, false
	}
	switch b.Kind() {
	case types.Int, types.Int64:
		return intInfo{64, true}, true
	case types.Int8:
		return intInfo{8, true}, true
	case types.Int16:
		return intInfo{16, true}, true
	case types.Int32:
		return intInfo{32, true}, true
	case types.Uint, types.Uint64, types.Uintptr:
		return intInfo{64, false}, true
	case types.Uint8:
		return intInfo{8, false}, true
	case types.Uint16:
		return intInfo{16, false}, true
	case types.Uint32:
		return intInfo{32, false}, true
	case types.UntypedInt, types.UntypedRune:
		return intInfo{0, true}, true // unbounded
	}
	return intInfo{}, false
}

func (ii intInfo) min() *big.Int {
	if !ii.signed {
		return big.NewInt(0)
	}
	return new(big.Int).Neg(pow2(ii.bits - 1))
}
func (ii intInfo) max() *big.Int {
	if ii.signed {
		return new(big.Int).Sub(pow2(ii.bits-1), big.NewInt(1))
	}
	return new(big.Int).Sub(pow2(ii.bits), big.NewInt(1))
}

// wrap reduces an unbounded Int term into the range of the type.
func (ii intInfo) wrap(s string) string {
	if ii.bits == 0 {
		return s
	}
	if n, ok := isNumLit(s); ok {
		m := new(big.Int).Mod(n, pow2(ii.bits))
		if ii.signed && m.Cmp(pow2(ii.bits-1)) >= 0 {
			m.Sub(m, pow2(ii.bits))
		}
		return bigNum(m)
	}
	if ii.signed {
		return sx("wrapS", s, pow2s(ii.bits-1))
	}
	return sx("mod", s, pow2s(ii.bits))
}

func (ii intInfo) inRange(s string) string {
	if ii.bits == 0 {
		return "true"
	}
	return and(sx("<=", bigNum(ii.min()), s), sx("<=", s, bigNum(ii.max())))
}

func kindOf(t types.Type) kind {
	switch u := t.Underlying().(type) {
	case *types.Basic:
		if _, ok := intInfoOf(t); ok {
			return kInt
		}
		switch {
		case u.Info()&types.IsBoolean != 0:
			return kBool
		case u.Info()&types.IsString != 0:
			return kStr
		case u.Kind() == types.UntypedNil:
			return kIface
		}
		return kOpaque
	case *types.Pointer:
		return kPtr
	case *types.Slice:
		return kSlice
	case *types.Struct:
		return kStruct
	case *types.Array:
		return kArray
	case *types.Interface:
		return kIface
	case *types.Tuple:
		return kTuple
	case *types.Map:
		return kMap
	case *types.Signature:
		return kFunc
	}
	return kOpaque
}

// sortOf gives the SMT sort of a type that is stored as one term
// (heap leaf, array element). Structs have no single sort.
func sortOf(t types.Type) string {
	switch kindOf(t) {
	case kInt, kPtr, kIface, kMap, kFunc, kOpaque:
		return "Int"
	case kBool:
		return "Bool"
	case kStr:
		return "Str"
	case kSlice:
		return "Slice"
	case kArray:
		return "(Array Int " + sortOf(t.Underlying().(*types.Array).Elem()) + ")"
	}
	if emptyStruct(t) {
		return "Int" // struct{}: a single value, represented as 0
	}
	bail("no single sort for type %s", t)
	return ""
}

// toTerm turns a single-sort value into one SMT term.
func toTerm(v Val) string {
	switch v.K {
	case kInt, kBool, kStr, kIface, kMap, kOpaque, kArray, kMath:
		return v.S
	case kFunc:
		if v.Fn != nil {
			bail("closure stored or merged")
		}
		return v.S
	case kPtr:
		if len(v.Path) != 0 {
			bail("interior pointer (field path) escapes to a term")
		}
		if v.Idx != "0" {
			bail("interior pointer (index %s) escapes to a term", v.Idx)
		}
		return v.Ref
	case kSlice:
		return sx("mkslice", v.Ref, v.Off, v.Len, v.Cap)
	}
	if v.K == kStruct && len(v.Fields) == 0 {
		return "0"
	}
	bail("toTerm: kind %d", v.K)
	return ""
}

// fromTerm is the inverse of toTerm for a value of static type t.
func fromTerm(t types.Type, s string) Val {
	switch kindOf(t) {
	case kInt:
		return Val{K: kInt, T: t, S: s}
	case kBool:
		return Val{K: kBool, T: t, S: s}
	case kStr:
		return Val{K: kStr, T: t, S: s}
	case kIface:
		return Val{K: kIface, T: t, S: s}
	case kMap:
		return Val{K: kMap, T: t, S: s}
	case kFunc:
		return Val{K: kFunc, T: t, S: s}
	case kOpaque:
		return Val{K: kOpaque, T: t, S: s}
	case kArray:
		return Val{K: kArray, T: t, S: s}
	case kPtr:
		return ptrVal(t, s, "0")
	case kSlice:
		el := t.Underlying().(*types.Slice).Elem()
		if strings.HasPrefix(s, "(mkslice ") {
			// keep literal components visible
		}
		return Val{K: kSlice, T: t, Root: el, Ref: sx("sref", s), Off: sx("soff", s), Len: sx("slen_", s), Cap: sx("scap", s)}
	}
	if emptyStruct(t) {
		return Val{K: kStruct, T: t}
	}
	bail("fromTerm: type %s", t)
	return Val{}
}

func emptyStruct(t types.Type) bool {
	st, ok := t.Underlying().(*types.Struct)
	return ok && st.NumFields() == 0
}

// ptrVal builds the canonical pointer of static type t (a pointer type).
func ptrVal(t types.Type, ref, idx string) Val {
	pt := t.Underlying().(*types.Pointer)
	root := pt.Elem()
	if at, ok := root.Underlying().(*types.Array); ok {
		// pointer to array: the object is an array of elements
		return Val{K: kPtr, T: t, Ref: ref, Idx: idx, Root: at.Elem(), Path: nil}
	}
	return Val{K: kPtr, T: t, Ref: ref, Idx: idx, Root: root}
}

// isArrayPtr reports whether pointer value v points at a whole array.
func pointee(v Val) types.Type {
	return v.T.Underlying().(*types.Pointer).Elem()
}

func typeName(t types.Type) string {
	s := types.TypeString(t, func(p *types.Package) string { return p.Name() })
	r := strings.NewReplacer(" ", "_", "*", "P", "[", "L", "]", "R", "{", "_", "}", "_", ";", "_", "(", "_", ")", "_", ",", "_", "/", "_", "\"", "_", ":", "_")
	return r.Replace(s)
}

// fieldAt resolves a field path below a struct type.
func fieldAt(root types.Type, path []int) (types.Type, string) {
	t := root
	name := ""
	for _, k := range path {
		st := t.Underlying().(*types.Struct)
		f := st.Field(k)
		name += "." + f.Name()
		t = f.Type()
	}
	return t, name
}

func heapKey(root types.Type, path []int) string {
	_, n := fieldAt(root, path)
	return "H_" + typeName(root) + n
}
