package main

// Resolution of the type names used as dynamic-type tags ("*crypto/rsa.PrivateKey",
// "golang.org/x/crypto/ssh.windowAdjustMsg") back to go/types types, so that
// an interface-to-interface assertion on a value with a known tag is decided
// by types.Implements instead of being left unknown.

import (
	"go/types"
	"sort"
	"strings"
)

var resolvedTypeNames = map[string]types.Type{}

func sortedStrings(s []string) []string { sort.Strings(s); return s }

func (e *Engine) resolveTypeName(name string) types.Type {
	if t, ok := resolvedTypeNames[name]; ok {
		return t
	}
	var res types.Type
	defer func() { resolvedTypeNames[name] = res }()
	n := name
	ptr := false
	if strings.HasPrefix(n, "*") {
		ptr = true
		n = n[1:]
	}
	if strings.ContainsAny(n, "*[]{}( ") {
		return nil
	}
	i := strings.LastIndex(n, ".")
	if i < 0 || e.prog == nil {
		return nil
	}
	path, tn := n[:i], n[i+1:]
	for _, p := range e.prog.AllPackages() {
		if p.Pkg == nil || p.Pkg.Path() != path {
			continue
		}
		obj := p.Pkg.Scope().Lookup(tn)
		if obj == nil {
			return nil
		}
		if _, ok := obj.(*types.TypeName); !ok {
			return nil
		}
		res = obj.Type()
		if ptr {
			res = types.NewPointer(res)
		}
		return res
	}
	return nil
}
